#!/bin/sh
# Offline build of the govc verifier (vendored golang.org/x/tools v0.50.0, go1.26.8).
set -e
cd "$(dirname "$0")/engine"
export GOFLAGS=-mod=vendor GOPROXY=off GOTOOLCHAIN=local GOSUMDB=off
export PATH=/opt/veriftools/go1.26.8/bin:$PATH
mkdir -p ../bin ../evidence ../out/replay
go build -o ../bin/govc .
for s in z3 z3-new cvc5; do command -v $s >/dev/null || { echo "missing solver $s"; exit 1; }; done
echo "govc built: $(../bin/govc version 2>/dev/null || true)"
