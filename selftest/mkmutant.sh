#!/bin/sh
# usage: mkmutant.sh <name> <file-relative-to-repo> <python-expr-on-s>   (creates selftest/mutants/<name>.patch)
# The edit is made on a scratch copy; /repo is not touched.
set -e
name=$1; file=$2; expr=$3
tmp=$(mktemp -d)
mkdir -p $tmp/a/$(dirname $file) $tmp/b/$(dirname $file)
cp /repo/$file $tmp/a/$file
python3 - "$tmp/a/$file" "$tmp/b/$file" "$expr" <<'PY'
import sys
s=open(sys.argv[1]).read()
t=eval(sys.argv[3])
assert t!=s, "mutation did not change the file"
open(sys.argv[2],'w').write(t)
PY
(cd $tmp && diff -u a/$file b/$file > /verif/selftest/mutants/$name.patch || true)
rm -rf $tmp
echo "wrote selftest/mutants/$name.patch ($(wc -l < /verif/selftest/mutants/$name.patch) lines)"
