#!/bin/sh
# Runs every claimed check's quick command (from MANIFEST.json) on the current /repo tree; prints one line per property.
cd "$(dirname "$0")"
rc=0
for p in $(python3 -c "import json;print(' '.join(c['property_id'] for c in json.load(open('MANIFEST.json'))['checks']))"); do
  out=$(./bin/govc check -p $p -tier quick 2>&1); code=$?
  echo "$p exit=$code $(echo "$out" | tail -1)"
  if [ $code -ne 0 ]; then rc=1; echo "$out" | grep -E "VIOLATION|STALE|error" | head -5; fi
done
exit $rc
