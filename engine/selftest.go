package main

// govc selftest: must-fail corpus. Every mutant is a realistic change to /repo that breaks a property; it is applied to a
// scratch copy of the repository (never to /repo), the property check is run against the copy, and the named obligation
// must fail. A surviving mutant is an engine/contract bug. Known findings act as canaries the same way (they must keep
// failing on the unchanged tree).

import (
	"encoding/json"
	"fmt"
	"os"
	"os/exec"
	"path/filepath"
	"strings"
	"sync"
	"time"
)

type mutant struct {
	Name     string `json:"name"`
	Patch    string `json:"patch"`
	Property string `json:"property"`
	Func     string `json:"func,omitempty"`
	Expect   string `json:"expect"` // substring of a FAILED-OBLIGATION line
	Note     string `json:"note,omitempty"`
}

func RunSelftest(args []string) int {
	verif := "/verif"
	repo := "/repo"
	only := ""
	jobs := 4
	for i := 0; i < len(args); i++ {
		switch args[i] {
		case "-only":
			i++
			only = args[i]
		case "-repo":
			i++
			repo = args[i]
		case "-j":
			i++
			fmt.Sscanf(args[i], "%d", &jobs)
		}
	}
	b, err := os.ReadFile(filepath.Join(verif, "selftest", "mutants", "index.json"))
	if err != nil {
		fmt.Println("selftest:", err)
		return 2
	}
	var ms []mutant
	if err := json.Unmarshal(b, &ms); err != nil {
		fmt.Println("selftest: index.json:", err)
		return 2
	}
	self, _ := os.Executable()
	failed := 0
	ran := 0
	var mu sync.Mutex
	var wg sync.WaitGroup
	sem := make(chan struct{}, jobs)
	for _, m := range ms {
		if only != "" && !strings.Contains(m.Name, only) && m.Property != only {
			continue
		}
		ran++
		wg.Add(1)
		sem <- struct{}{}
		go func(m mutant) {
		defer wg.Done()
		defer func() { <-sem }()
		start := time.Now()
		scratch, err := os.MkdirTemp("", "govc-selftest-*")
		if err != nil {
			fmt.Println(err)
			mu.Lock()
			failed++
			mu.Unlock()
			return
		}
		ok, detail := func() (bool, string) {
			defer os.RemoveAll(scratch)
			cp := exec.Command("rsync", "-a", "--exclude", ".git", repo+"/", scratch+"/")
			if out, err := cp.CombinedOutput(); err != nil {
				return false, "copy failed: " + string(out)
			}
			pf, err := os.Open(filepath.Join(verif, "selftest", "mutants", m.Patch))
			if err != nil {
				return false, err.Error()
			}
			defer pf.Close()
			p := exec.Command("patch", "-p1", "-s", "--no-backup-if-mismatch")
			p.Dir = scratch
			p.Stdin = pf
			if out, err := p.CombinedOutput(); err != nil {
				return false, "patch does not apply: " + string(out)
			}
			a := []string{"check", "-p", m.Property, "-repo", scratch, "-noevidence", "-noreplay"}
			if m.Func != "" {
				a = append(a, "-func", m.Func)
			}
			c := exec.Command(self, a...)
			out, _ := c.CombinedOutput()
			for _, line := range strings.Split(string(out), "\n") {
				if strings.HasPrefix(line, "FAILED-OBLIGATION:") && strings.Contains(line, m.Expect) {
					return true, strings.TrimSpace(trunc(line, 160))
				}
			}
			if strings.Contains(string(out), "load error") {
				return false, "INVALID MUTANT (does not build): " + trunc(string(out), 300)
			}
			tail := string(out)
			if len(tail) > 600 {
				tail = tail[len(tail)-600:]
			}
			return false, "expected a failed obligation containing " + m.Expect + "; output tail:\n" + tail
		}()
		mu.Lock()
		defer mu.Unlock()
		if ok {
			fmt.Printf("selftest: KILLED  %-40s %s (%.1fs)\n", m.Name, m.Property, time.Since(start).Seconds())
		} else {
			failed++
			fmt.Printf("selftest: SURVIVED %-40s %s: %s\n", m.Name, m.Property, detail)
		}
		}(m)
	}
	wg.Wait()
	fmt.Printf("selftest: %d mutants, %d survived\n", ran, failed)
	if failed > 0 {
		return 1
	}
	return 0
}
