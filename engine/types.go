package main

// Go type -> flat leaf layout.

import (
	"fmt"
	"go/types"
	"math/big"
	"strings"
)

type LeafSpec struct {
	Suffix string
	Sort   Sort
	GoT    types.Type // Go type of the scalar leaf (nil for synthetic leaves like #len)
	Kind   string     // "", "len", "cap", "off", "arr", "tag", "data"
	Iface  types.Type // for tag leaves: the interface type
}

var leafCache = map[types.Type][]LeafSpec{}

func under(t types.Type) types.Type {
	for {
		switch tt := t.(type) {
		case *types.Named:
			t = tt.Underlying()
		case *types.Alias:
			t = types.Unalias(tt)
		case *types.TypeParam:
			return t
		default:
			return t.Underlying()
		}
	}
}

func typeName(t types.Type) string {
	t = types.Unalias(t)
	switch tt := t.(type) {
	case *types.Named:
		o := tt.Obj()
		n := o.Name()
		if o.Pkg() != nil {
			n = shortPkg(o.Pkg().Path()) + "." + n
		}
		if ta := tt.TypeArgs(); ta != nil && ta.Len() > 0 {
			var as []string
			for i := 0; i < ta.Len(); i++ {
				as = append(as, typeName(ta.At(i)))
			}
			n += "[" + strings.Join(as, ",") + "]"
		}
		return n
	case *types.Pointer:
		return "*" + typeName(tt.Elem())
	case *types.Slice:
		return "[]" + typeName(tt.Elem())
	case *types.Array:
		return fmt.Sprintf("[%d]%s", tt.Len(), typeName(tt.Elem()))
	case *types.Map:
		return "map[" + typeName(tt.Key()) + "]" + typeName(tt.Elem())
	case *types.Basic:
		return tt.Name()
	case *types.Interface:
		if tt.NumMethods() == 0 {
			return "any"
		}
		return "iface{" + fmt.Sprint(tt.NumMethods()) + "}"
	case *types.Struct:
		var fs []string
		for i := 0; i < tt.NumFields(); i++ {
			fs = append(fs, tt.Field(i).Name()+" "+typeName(tt.Field(i).Type()))
		}
		return "struct{" + strings.Join(fs, ";") + "}"
	case *types.Chan:
		return "chan " + typeName(tt.Elem())
	case *types.Signature:
		return "func"
	case *types.Tuple:
		return "tuple"
	}
	return t.String()
}

func shortPkg(p string) string {
	p = strings.TrimPrefix(p, "github.com/containerd/stargz-snapshotter/")
	if p == "github.com/containerd/stargz-snapshotter" {
		p = "root"
	}
	return p
}

func scalarSort(t types.Type) (Sort, bool) {
	switch u := under(t).(type) {
	case *types.Basic:
		switch {
		case u.Info()&types.IsBoolean != 0:
			return SBool, true
		case u.Info()&types.IsString != 0:
			return SStr, true
		case u.Info()&types.IsInteger != 0:
			return SInt, true
		case u.Info()&types.IsFloat != 0, u.Info()&types.IsComplex != 0:
			return SInt, true // opaque
		case u.Kind() == types.UnsafePointer, u.Kind() == types.UntypedNil:
			return SInt, true
		}
		return SInt, true
	case *types.Pointer, *types.Map, *types.Chan, *types.Signature:
		return SInt, true
	}
	return "", false
}

func leafSpecs(t types.Type) []LeafSpec {
	if ls, ok := leafCache[t]; ok {
		return ls
	}
	var out []LeafSpec
	if s, ok := scalarSort(t); ok {
		out = []LeafSpec{{Suffix: "", Sort: s, GoT: t}}
	} else {
		switch u := under(t).(type) {
		case *types.Slice:
			out = []LeafSpec{{Suffix: "#arr", Sort: SInt, Kind: "arr"}, {Suffix: "#off", Sort: SInt, Kind: "off"}, {Suffix: "#len", Sort: SInt, Kind: "len"}, {Suffix: "#cap", Sort: SInt, Kind: "cap"}}
		case *types.Interface:
			out = []LeafSpec{{Suffix: "#tag", Sort: SInt, Kind: "tag", Iface: t}, {Suffix: "#data", Sort: SInt, Kind: "data"}}
		case *types.Struct:
			for i := 0; i < u.NumFields(); i++ {
				f := u.Field(i)
				for _, l := range leafSpecs(f.Type()) {
					out = append(out, LeafSpec{"." + f.Name() + l.Suffix, l.Sort, l.GoT, l.Kind, l.Iface})
				}
			}
		case *types.Array:
			for _, l := range leafSpecs(u.Elem()) {
				out = append(out, LeafSpec{Suffix: "[]" + l.Suffix, Sort: ArrSort(SInt, l.Sort), Kind: "array"})
			}
		case *types.Tuple:
			for i := 0; i < u.Len(); i++ {
				for _, l := range leafSpecs(u.At(i).Type()) {
					out = append(out, LeafSpec{fmt.Sprintf("$%d%s", i, l.Suffix), l.Sort, l.GoT, l.Kind, l.Iface})
				}
			}
		case *types.TypeParam:
			out = []LeafSpec{{Sort: SInt}}
		default:
			out = []LeafSpec{{Sort: SInt}}
		}
	}
	leafCache[t] = out
	return out
}

// fieldRange returns the leaf index range of field i within struct type t's leaves.
func fieldRange(st *types.Struct, i int) (int, int) {
	start := 0
	for k := 0; k < i; k++ {
		start += len(leafSpecs(st.Field(k).Type()))
	}
	return start, start + len(leafSpecs(st.Field(i).Type()))
}

func tupleRange(tu *types.Tuple, i int) (int, int) {
	start := 0
	for k := 0; k < i; k++ {
		start += len(leafSpecs(tu.At(k).Type()))
	}
	return start, start + len(leafSpecs(tu.At(i).Type()))
}

// deepSize is the number of address slots a struct object occupies (for interior pointers).
func deepSize(t types.Type) int64 {
	if st, ok := under(t).(*types.Struct); ok {
		var n int64
		for i := 0; i < st.NumFields(); i++ {
			n += deepSize(st.Field(i).Type())
		}
		if n == 0 {
			n = 1
		}
		return n
	}
	return 1
}

func fieldOffset(st *types.Struct, i int) int64 {
	var n int64
	for k := 0; k < i; k++ {
		n += deepSize(st.Field(k).Type())
	}
	return n
}

func isStruct(t types.Type) bool { _, ok := under(t).(*types.Struct); return ok }

// intRange returns min,max for an integer Go type (nil,nil if not integer).
func intRange(t types.Type) (*big.Int, *big.Int) {
	b, ok := under(t).(*types.Basic)
	if !ok || b.Info()&types.IsInteger == 0 {
		return nil, nil
	}
	bits, signed := intBits(b)
	if signed {
		max := new(big.Int).Lsh(big.NewInt(1), uint(bits-1))
		min := new(big.Int).Neg(max)
		max.Sub(max, big.NewInt(1))
		return min, max
	}
	max := new(big.Int).Lsh(big.NewInt(1), uint(bits))
	max.Sub(max, big.NewInt(1))
	return big.NewInt(0), max
}

func intBits(b *types.Basic) (int, bool) {
	switch b.Kind() {
	case types.Int8:
		return 8, true
	case types.Int16:
		return 16, true
	case types.Int32:
		return 32, true
	case types.Int64, types.Int, types.UntypedInt, types.UntypedRune:
		return 64, true
	case types.Uint8:
		return 8, false
	case types.Uint16:
		return 16, false
	case types.Uint32:
		return 32, false
	case types.Uint64, types.Uint, types.Uintptr:
		return 64, false
	}
	return 64, true
}

func isInteger(t types.Type) bool {
	b, ok := under(t).(*types.Basic)
	return ok && b.Info()&types.IsInteger != 0
}
func isFloat(t types.Type) bool {
	b, ok := under(t).(*types.Basic)
	return ok && b.Info()&(types.IsFloat|types.IsComplex) != 0
}
func isString(t types.Type) bool {
	b, ok := under(t).(*types.Basic)
	return ok && b.Info()&types.IsString != 0
}
func isBoolean(t types.Type) bool {
	b, ok := under(t).(*types.Basic)
	return ok && b.Info()&types.IsBoolean != 0
}
func isPointer(t types.Type) bool { _, ok := under(t).(*types.Pointer); return ok }
func isIface(t types.Type) bool   { _, ok := under(t).(*types.Interface); return ok }
func isSlice(t types.Type) bool   { _, ok := under(t).(*types.Slice); return ok }
func isMap(t types.Type) bool     { _, ok := under(t).(*types.Map); return ok }

// wrapInt wraps a mathematical integer term into the range of type t.
// mode "addsub": operands were in range so a single correction suffices.
var arithMath = false

func wrapInt(v *Term, t types.Type, single bool) *Term {
	min, max := intRange(t)
	if min == nil {
		return v
	}
	if arithMath && !v.isInt() {
		return v
	}
	if v.isInt() {
		if v.ival.Cmp(min) >= 0 && v.ival.Cmp(max) <= 0 {
			return v
		}
		span := new(big.Int).Sub(max, min)
		span.Add(span, big.NewInt(1))
		r := new(big.Int).Sub(v.ival, min)
		r.Mod(r, span)
		r.Add(r, min)
		return IntBig(r)
	}
	span := new(big.Int).Sub(max, min)
	span.Add(span, big.NewInt(1))
	if single {
		return Ite(Gt(v, IntBig(max)), Sub(v, IntBig(span)), Ite(Lt(v, IntBig(min)), Add(v, IntBig(span)), v))
	}
	// general: ((v - min) mod span) + min
	return Add(EMod(Sub(v, IntBig(min)), IntBig(span)), IntBig(min))
}

func inRange(v *Term, t types.Type) *Term {
	min, max := intRange(t)
	if min == nil {
		return True
	}
	return And(Le(IntBig(min), v), Le(v, IntBig(max)))
}

var maxLen = Pow2(47)

// type ids for interface tags
var typeIDs = map[string]int64{}
var typeIDTypes = map[int64]types.Type{}

func typeID(t types.Type) int64 {
	n := typeName(t)
	if id, ok := typeIDs[n]; ok {
		return id
	}
	id := int64(len(typeIDs) + 1)
	typeIDs[n] = id
	typeIDTypes[id] = t
	return id
}
