package main

import (
	"fmt"
	"go/token"
	"go/types"
	"os"
	"strings"

	"golang.org/x/tools/go/ssa"
)

func isModulePkg(p *types.Package) bool {
	return p != nil && strings.HasPrefix(p.Path(), "github.com/containerd/stargz-snapshotter")
}

func fnPkg(fn *ssa.Function) *types.Package {
	if fn.Pkg != nil {
		return fn.Pkg.Pkg
	}
	if fn.Object() != nil {
		return fn.Object().Pkg()
	}
	if fn.Parent() != nil {
		return fnPkg(fn.Parent())
	}
	return nil
}

func (v *Verifier) execCall(s *State, instr ssa.Instruction, c *ssa.CallCommon, pos token.Pos) *Value {
	var fv *Value
	if _, isB := c.Value.(*ssa.Builtin); !isB {
		fv = v.reg(s, c.Value)
	}
	var args []*Value
	for _, a := range c.Args {
		args = append(args, v.reg(s, a))
	}
	return v.callCommon(s, c, fv, args, pos, instr)
}

func resultType(c *ssa.CallCommon) types.Type {
	sig := c.Signature()
	if sig == nil {
		return nil
	}
	switch sig.Results().Len() {
	case 0:
		return nil
	case 1:
		return sig.Results().At(0).Type()
	}
	return sig.Results()
}

func (v *Verifier) callCommon(s *State, c *ssa.CallCommon, fv *Value, args []*Value, pos token.Pos, instr ssa.Instruction) *Value {
	if b, ok := c.Value.(*ssa.Builtin); ok {
		return v.callBuiltin(s, b, c, args, pos, instr)
	}
	// goroutines started on this path run concurrently: at every call (the points where this goroutine may block or
	// synchronise) whatever they can write is unknown
	v.interference(s)
	var callee *ssa.Function
	var clo *Closure
	fullArgs := args
	if c.IsInvoke() {
		// interface method call
		recv := fv
		v.addOb(s, "nil", pos, Neq(recv.L[0], Int(0)), "", nil)
		if recv.L[0].isInt() {
			if ct, ok := typeIDTypes[recv.L[0].ival.Int64()]; ok {
				if m := v.prog.LookupMethod(ct, c.Method.Pkg(), c.Method.Name()); m != nil {
					callee = m
					fullArgs = append([]*Value{v.unbox(s, recv, ct)}, args...)
				}
			}
		}
		if callee == nil {
			return v.callInterface(s, c, recv, args, pos)
		}
	} else {
		callee = c.StaticCallee()
		if callee == nil && fv != nil && fv.Clo != nil {
			callee = fv.Clo.Fn
		}
		if fv != nil && fv.Clo != nil && len(fv.Clo.Binds) > 0 {
			clo = fv.Clo
		} else if callee != nil && len(callee.FreeVars) > 0 && fv != nil && fv.Clo != nil {
			clo = fv.Clo
		}
		if callee == nil {
			// unknown function value
			hasGlobalContract := fv != nil && strings.HasPrefix(fv.Orig, "global:") && v.contracts.get(strings.TrimPrefix(fv.Orig, "global:")) != nil
			if fv != nil && fv.L[0] != nil && !hasGlobalContract {
				v.addOb(s, "nil", pos, Neq(fv.L[0], Int(0)), "", nil)
			}
			if fv != nil && strings.HasPrefix(fv.Orig, "global:") {
				name := strings.TrimPrefix(fv.Orig, "global:")
				if fc := v.contracts.get(name); fc != nil {
					v.byContract[name] = true
					if sig, ok := under(fv.T).(*types.Signature); ok {
						return v.applyContract(s, fc, sig, args, pos, resultType(c), name)
					}
				}
			}
			if fv != nil && strings.HasPrefix(fv.Orig, "field:") && fv.OrigObj != nil {
				key := strings.TrimPrefix(fv.Orig, "field:") + "#callback"
				if fc := v.contracts.get(key); fc != nil {
					v.byContract[key] = true
					if sig, ok := under(fv.T).(*types.Signature); ok {
						k := strings.LastIndex(strings.TrimSuffix(key, "#callback"), ".")
						recvT := v.lookupNamedType(key[:k])
						if recvT != nil {
							self := scalar(types.NewPointer(recvT), fv.OrigObj)
							v.curFnValue = fv
							return v.applyFieldCallback(s, fc, sig, self, args, pos, resultType(c), key)
						}
					}
				}
			}
			if fv != nil && fv.L[0] != nil {
				if rf, ok := v.resultFuncs[fv.L[0].id]; ok {
					if fc := v.contracts.get(rf.key); fc != nil {
						v.byContract[rf.key] = true
						if sig, ok := under(fv.T).(*types.Signature); ok {
							v.curFnValue = fv
							if rf.self != nil {
								return v.applyFieldCallback(s, fc, sig, rf.self, args, pos, resultType(c), rf.key)
							}
							return v.applyContract(s, fc, sig, args, pos, resultType(c), rf.key)
						}
					}
				}
			}
			if cb := v.callbackContract(s, c, fv); cb != nil {
				return v.applyCallback(s, cb, c, args, pos)
			}
			v.trusted["<dynamic func value> "+c.Value.Name()+" in "+funcRef(s.frame.fn)] = true
			// the address of a local variable handed to an unknown function (functional options: o(&opts)) is handed over
			// to be written: the variable is unknown afterwards, whatever its type
			for i, a := range c.Args {
				if al, ok := a.(*ssa.Alloc); ok && al.Heap && i < len(args) && args[i] != nil && args[i].LV == nil && args[i].L[0] != nil {
					if et := al.Type().(*types.Pointer).Elem(); isStruct(et) {
						s.storeStruct(args[i].L[0], et, freshValue("ext!"+typeName(et), et))
					}
				}
			}
			v.havocPointeesPolicy(s, args, true)
			return v.havocResult(s, resultType(c), "dyn")
		}
	}
	name := callee.String()
	if callee.Synthetic != "" && strings.Contains(callee.Synthetic, "wrapper") || strings.Contains(callee.Synthetic, "thunk") || strings.Contains(callee.Synthetic, "bound method") {
		// wrappers have bodies; inline them
		if callee.Blocks != nil {
			return v.inline(s, callee, fullArgs, clo, pos)
		}
	}
	if h, ok := natives[name]; ok {
		return h(v, s, c, callee, fullArgs, pos)
	}
	if origin := callee.Origin(); origin != nil {
		if h, ok := natives[origin.String()]; ok {
			return h(v, s, c, callee, fullArgs, pos)
		}
	}
	if fc := v.contracts.forFunc(callee); fc != nil && fc.hasCallContract() && callee != v.top {
		v.byContract[funcRef(callee)] = true
		v.curCallee = callee
		defer func() { v.curCallee = nil }()
		return v.applyContract(s, fc, callee.Signature, fullArgs, pos, resultType(c), funcRef(callee))
	}
	if fc := v.contracts.forFunc(callee); fc != nil && callee == v.top && fc.hasCallContract() {
		// recursive call of the function under verification: use its contract + decreases
		v.byContract[funcRef(callee)+" (recursive)"] = true
		v.recursionMeasure(s, fc, callee, fullArgs, pos)
		v.curCallee = callee
		defer func() { v.curCallee = nil }()
		return v.applyContract(s, fc, callee.Signature, fullArgs, pos, resultType(c), funcRef(callee))
	}
	if callee.Blocks != nil && v.canInline(s, callee) {
		return v.inline(s, callee, fullArgs, clo, pos)
	}
	// havoc
	return v.havocCall(s, callee, c, fullArgs, pos)
}

func (v *Verifier) canInline(s *State, callee *ssa.Function) bool {
	if s.frame.depth >= 6 {
		return false
	}
	for f := s.frame; f != nil; f = f.parent {
		if f.fn == callee {
			return false
		}
	}
	n := 0
	for _, b := range callee.Blocks {
		n += len(b.Instrs)
	}
	limit := 150
	if callee.Parent() != nil {
		limit = 400 // closures defined in verified functions are part of them
	}
	if !isModulePkg(fnPkg(callee)) {
		// small loop-free leaf functions of dependencies (String() methods, accessors) are executed as they are
		if n > 90 || callee.Synthetic != "" {
			return false
		}
		for _, b := range callee.Blocks {
			for _, succ := range b.Succs {
				if succ.Dominates(b) {
					return false
				}
			}
			for _, ins := range b.Instrs {
				if c, ok := ins.(ssa.CallInstruction); ok {
					if _, isB := c.Common().Value.(*ssa.Builtin); !isB {
						return false
					}
				}
				switch ins.(type) {
				case *ssa.Go, *ssa.Defer, *ssa.Select, *ssa.Send, *ssa.MapUpdate, *ssa.Store:
					if st, ok := ins.(*ssa.Store); ok {
						if a, ok := st.Addr.(*ssa.Alloc); ok && !a.Heap {
							continue
						}
						if fa, ok := st.Addr.(*ssa.FieldAddr); ok {
							if a, ok := fa.X.(*ssa.Alloc); ok && !a.Heap {
								continue
							}
						}
					}
					return false
				}
			}
		}
		return true
	}
	if fc := v.contracts.forFunc(callee); fc != nil && fc.NoInline {
		return false
	}
	return n <= limit
}

func (v *Verifier) inline(s *State, callee *ssa.Function, args []*Value, clo *Closure, pos token.Pos) *Value {
	v.inlinedFns[funcRef(callee)] = true
	caller := s.frame
	exits := v.runFunc(callee, s, args, clo)
	// merge exits back into s (s is mutated in place: copy merged state into *s)
	var sts []*State
	var rets [][]*Value
	for _, e := range exits {
		if e.st.dead {
			continue
		}
		e.st.frame = &Frame{fn: caller.fn, regs: e.st.frame.regs, parent: caller.parent, depth: caller.depth}
		sts = append(sts, e.st)
		rets = append(rets, e.results)
	}
	if len(sts) == 0 {
		s.dead = true
		return nil
	}
	// restore caller frame regs (callee did not touch them): use caller's regs
	for _, st := range sts {
		st.frame = caller.clone()
	}
	// store results into a temp ghost so that merging handles them
	rt := callee.Signature.Results()
	for i, st := range sts {
		for k, r := range rets[i] {
			st.ghost[fmt.Sprintf("$ret%d", k)] = r
		}
	}
	merged := mergeStates(sts)
	if len(merged) != 1 && v.noFork > 0 {
		v.abort("inlined call to %s returns %d unmergeable states in a context that cannot fork", funcRef(callee), len(merged))
	}
	takeRet := func(st *State) *Value {
		var res *Value
		switch rt.Len() {
		case 0:
		case 1:
			res = st.ghost["$ret0"]
		default:
			res = &Value{T: rt}
			for k := 0; k < rt.Len(); k++ {
				res.L = append(res.L, st.ghost[fmt.Sprintf("$ret%d", k)].L...)
			}
		}
		for k := 0; k < rt.Len(); k++ {
			delete(st.ghost, fmt.Sprintf("$ret%d", k))
		}
		return res
	}
	// the first state continues in place; the others become forks that the enclosing block executor continues
	for _, m := range merged[1:] {
		r := takeRet(m)
		v.forks = append(v.forks, fork{st: m, val: r})
	}
	*s = *merged[0]
	return takeRet(s)
}

func (v *Verifier) havocResult(s *State, rt types.Type, hint string) *Value {
	if rt == nil {
		return nil
	}
	r := freshValue("ret!"+hint, rt)
	s.bumpWM()
	s.assumeAllocated(r)
	v.errConvention(s, r)
	return r
}

// errConvention: for results of shape (..., error) from callees without contract, assume the Go convention
// that pointer / interface / map results are non-nil when the error is nil.
func (v *Verifier) errConvention(s *State, r *Value) {
	tu, ok := r.T.(*types.Tuple)
	if !ok || tu.Len() < 2 {
		return
	}
	last := tu.At(tu.Len() - 1).Type()
	if !isIface(last) || typeName(last) != "error" {
		return
	}
	lo, _ := tupleRange(tu, tu.Len()-1)
	errNil := Eq(r.L[lo], Int(0))
	for i := 0; i < tu.Len()-1; i++ {
		t := tu.At(i).Type()
		if isPointer(t) || isIface(t) || isMap(t) {
			a, _ := tupleRange(tu, i)
			s.assume(Implies(errNil, Gt(r.L[a], Int(0))))
			v.assumptions["callees without contract follow the Go convention: err == nil implies non-nil pointer/interface/map results"] = true
		}
	}
}

func (v *Verifier) havocCall(s *State, callee *ssa.Function, c *ssa.CallCommon, args []*Value, pos token.Pos) *Value {
	name := funcRef(callee)
	v.trusted[name] = true
	if isModulePkg(fnPkg(callee)) && callee.Blocks != nil {
		v.havocBySummary(s, callee, "Hc!", true)
	} else {
		v.havocPointees(s, args)
	}
	return v.havocResult(s, resultType(c), name)
}

// havocPointees: an external callee may write through pointer / slice arguments (shallow).
func (v *Verifier) havocPointees(s *State, args []*Value) { v.havocPointeesPolicy(s, args, false) }

// havocPointeesPolicy: with dynamic==true (callbacks / interface methods / func values) module structs reachable from
// pointer arguments are assumed unmodified (listed assumption); buffers and non-struct pointees are still havoc'd.
func (v *Verifier) havocPointeesPolicy(s *State, args []*Value, dynamic bool) {
	v.havocVolatile(s)
	// a callee that receives a closure may call it any number of times: everything the closure can write is havoc'd
	for _, a := range args {
		if a != nil && a.Clo != nil && a.Clo.Fn != nil && a.Clo.Fn.Blocks != nil {
			v.havocBySummary(s, a.Clo.Fn, "Hcb!", true)
		}
	}
	for _, a := range args {
		if a == nil {
			continue
		}
		switch u := under(a.T).(type) {
		case *types.Pointer:
			et := u.Elem()
			if a.LV != nil {
				nv := freshValue("ext!"+typeName(et), a.LV.t)
				s.store(a.LV, nv)
				continue
			}
			if a.L[0] == nil {
				continue
			}
			if isStruct(et) {
				if isModuleType(et) && !dynamic {
					s.storeStruct(a.L[0], et, freshValue("ext!"+typeName(et), et))
				}
			} else {
				s.storePtr(a.L[0], et, freshValue("ext!"+typeName(et), et))
			}
		case *types.Slice:
			et := u.Elem()
			for _, hk := range heapKeys(elemBase(et), et, SInt, SInt) {
				h := s.heapArr(hk.name, hk.sort)
				_, inner, _ := arrayParts(hk.sort)
				s.heap[hk.name] = Store(h, a.sArr(), Fresh("ext!elems", inner))
			}
		case *types.Map:
			// the callee may insert, overwrite and delete entries of a map it is given
			if a.L[0] != nil {
				ms := map[string]Sort{}
				addMapKeys(ms, a.T)
				s.bumpWM()
				for _, k := range sortedKeys(ms) {
					h := s.heapArr(k, ms[k])
					_, inner, _ := arrayParts(ms[k])
					s.heap[k] = Store(h, a.term(), Fresh("ext!map", inner))
				}
				v.assumeMapValuesAllocated(s, a)
			}
		case *types.Interface:
			// dynamic pointer inside an interface: havoc if it is a known pointer type to a module struct
			if a.L[0].isInt() {
				if ct, ok := typeIDTypes[a.L[0].ival.Int64()]; ok {
					if p, ok := under(ct).(*types.Pointer); ok && isStruct(p.Elem()) && isModuleType(p.Elem()) && !dynamic {
						// a foreign callee can touch a module object only through the methods of the interface it was given
						for i := 0; i < u.NumMethods(); i++ {
							m := u.Method(i)
							if fn := v.prog.LookupMethod(ct, m.Pkg(), m.Name()); fn != nil && fn.Blocks != nil {
								v.havocBySummary(s, fn, "Hext!", true)
							}
						}
					}
				}
			}
		}
	}
}

func isModuleType(t types.Type) bool {
	if n, ok := types.Unalias(t).(*types.Named); ok {
		return isModulePkg(n.Obj().Pkg())
	}
	return false
}

func (v *Verifier) callInterface(s *State, c *ssa.CallCommon, recv *Value, args []*Value, pos token.Pos) *Value {
	// contract declared on the interface method?
	key := typeName(c.Value.Type()) + "." + c.Method.Name()
	if os.Getenv("GOVC_DEBUG") == "iface" {
		fmt.Fprintf(os.Stderr, "DEBUG iface call %s scope=%s found=%v\n", key, curScope, v.contracts.get(key) != nil)
	}
	if fc := v.contracts.get(key); fc != nil {
		v.byContract[key] = true
		sig := c.Method.Type().(*types.Signature)
		full := append([]*Value{recv}, args...)
		return v.applyContractNamed(s, fc, sig, full, pos, resultType(c), key, true)
	}
	v.trusted["<interface> "+key] = true
	invs := v.callbackInvs(s, c.Method.Name(), args)
	v.checkCallbackInvs(s, invs, pos)
	v.havocPointeesPolicy(s, args, true)
	v.assumeCallbackInvs(s, invs)
	return v.havocResult(s, resultType(c), key)
}

// ---------- contracts at call sites ----------

func (v *Verifier) applyContract(s *State, fc *FuncContract, sig *types.Signature, args []*Value, pos token.Pos, rt types.Type, name string) *Value {
	return v.applyContractNamed(s, fc, sig, args, pos, rt, name, false)
}

func (v *Verifier) applyContractNamed(s *State, fc *FuncContract, sig *types.Signature, args []*Value, pos token.Pos, rt types.Type, name string, ifaceRecv bool) *Value {
	calleeFn := v.curCallee
	env := map[string]*Value{}
	if v.curFnValue != nil {
		// the function value being called (contracts of func-typed results and fields): `fnvalue`
		env["fnvalue"] = v.curFnValue
		v.curFnValue = nil
	}
	i := 0
	if sig.Recv() != nil && !ifaceRecv {
		if len(args) > 0 {
			env[recvName(sig, fc)] = args[0]
		}
		i = 1
	} else if ifaceRecv {
		env["self"] = args[0]
		i = 1
	}
	for k := 0; k < sig.Params().Len() && i+k < len(args); k++ {
		n := sig.Params().At(k).Name()
		if fc.ParamNames != nil && k < len(fc.ParamNames) {
			n = fc.ParamNames[k]
		}
		if n != "" && n != "_" {
			env[n] = args[i+k]
		}
	}
	pre := s.clone()
	// thorough tier: was the call reachable at all? (only then can its contract be blamed for an unreachable post-state)
	reachableBefore := false
	if thoroughTier && s.frame != nil && s.frame.fn == v.top && v.suppressObs == 0 {
		reachableBefore = Solve(Script(append([]*Term{}, s.pc...), false), 5, false, false).Status != "unsat"
	}
	ev := &Eval{v: v, st: s, old: pre, env: env, mode: evalCall, fc: fc}
	if calleeFn != nil {
		ev.altPkg = fnPkg(calleeFn)
	}
	if fc.Trusted || ifaceRecv || calleeFn == nil || calleeFn.Blocks == nil || !isModulePkg(fnPkg(calleeFn)) {
		// a contract whose body is not verified by any check (foreign function, interface method, `trusted`): every
		// application is an assumption and is listed in the evidence
		var ens []string
		for _, c := range fc.Clauses {
			if c.Kind == "ensures" && !c.IsLoop {
				ens = append(ens, c.Text)
			}
		}
		kind := "foreign function"
		if ifaceRecv {
			kind = "interface method"
		} else if calleeFn != nil && calleeFn.Blocks != nil && isModulePkg(fnPkg(calleeFn)) {
			kind = "module function marked `trusted`"
		}
		v.assumptions["assumed contract ("+kind+", body not verified) of "+name+": ensures "+trunc(strings.Join(ens, " && "), 400)] = true
	}
	for _, c := range fc.Clauses {
		if c.Kind == "requires" && !c.IsLoop {
			if c.heldLock != nil {
				// the caller must hold the lock the callee's contract assumes held
				held := False
				func() {
					defer func() {
						if r := recover(); r != nil {
							if _, ok := r.(abortExec); !ok {
								panic(r)
							}
						}
					}()
					a := ev.evalAddr(c.heldLock)
					key, _, _, _ := v.lockKey(a)
					for _, h := range s.held {
						if h.key == key {
							held = True
						}
					}
				}()
				v.addOb(s, "pre", pos, held, name+" requires "+c.Text, c.Props)
				continue
			}
			v.addOb(s, "pre", pos, ev.boolExpr(c.Expr), name+" requires "+c.Text, c.Props)
		}
	}
	// a callee that receives a closure may run it any number of times: whatever the closure can write (captured
	// variables of the caller included) is unknown afterwards, whatever the callee's own frame says
	for _, a := range args {
		if a != nil && a.Clo != nil && a.Clo.Fn != nil && a.Clo.Fn.Blocks != nil && !fc.DeferredFuncs {
			v.havocBySummary(s, a.Clo.Fn, "Hcb!", true)
		}
	}
	// frame
	explicit := false
	for _, c := range fc.Clauses {
		if c.Kind == "modifies" && !c.IsLoop {
			explicit = true
			for _, e := range c.Exprs {
				ev.havocTarget(e)
			}
		}
	}
	if callee := v.curCallee; !fc.Pure && !(callee != nil && callee.Blocks != nil && isModulePkg(fnPkg(callee))) {
		// contract on foreign code or on an interface method: volatile fields may change underneath
		v.havocVolatile(s)
	}
	if callee := v.curCallee; explicit && callee != nil && callee.Blocks != nil && isModulePkg(fnPkg(callee)) {
		// objects the callee allocates are not covered by its modifies clause: what they hold is unknown (in particular
		// they may refer to other objects allocated during the call)
		v.havocFreshRegion(s, callee, pre.wm)
	}
	if callee := v.curCallee; !explicit && !fc.Pure && !fc.Trusted && callee != nil && callee.Blocks != nil && isModulePkg(fnPkg(callee)) {
		// no modifies clause on a function whose body is known: everything its body (transitively) can write is unknown
		v.havocBySummary(s, callee, "Hc!", true)
	} else if !explicit && !fc.Pure {
		v.assumptions["callee "+name+" has no modifies clause: assumed to modify nothing visible"] = true
	}
	v.curCallee = nil
	var res *Value
	if rt != nil {
		res = freshValue("ret!"+name, rt)
		s.bumpWM()
		s.assumeAllocated(res)
		// bind named results
		rs := sig.Results()
		if rs.Len() == 1 {
			env["result"] = res
			if n := rs.At(0).Name(); n != "" {
				env[n] = res
			}
		} else {
			tu := rs
			for k := 0; k < rs.Len(); k++ {
				lo, hi := tupleRange(tu, k)
				sub := res.sub(lo, hi, rs.At(k).Type())
				env[fmt.Sprintf("result%d", k)] = sub
				if n := rs.At(k).Name(); n != "" {
					env[n] = sub
				}
			}
		}
		if rs := sig.Results(); rs.Len() >= 1 && env["err"] == nil && typeName(rs.At(rs.Len()-1).Type()) == "error" {
			if rs.Len() == 1 {
				env["err"] = res
			} else {
				lo, hi := tupleRange(rs, rs.Len()-1)
				env["err"] = res.sub(lo, hi, rs.At(rs.Len()-1).Type())
			}
		}
		if fc.ResultNames != nil {
			rs := sig.Results()
			for k, n := range fc.ResultNames {
				if k < rs.Len() {
					if rs.Len() == 1 {
						env[n] = res
					} else {
						lo, hi := tupleRange(rs, k)
						env[n] = res.sub(lo, hi, rs.At(k).Type())
					}
				}
			}
		}
	}
	// func-typed results of a call by contract: a later call of such a value is a call by the contract "<callee>#<result>"
	// (e.g. the release function handed out with a cache entry)
	if res != nil {
		rs := sig.Results()
		for k := 0; k < rs.Len(); k++ {
			if _, isFn := under(rs.At(k).Type()).(*types.Signature); !isFn {
				continue
			}
			rn := rs.At(k).Name()
			if fc.ResultNames != nil && k < len(fc.ResultNames) {
				rn = fc.ResultNames[k]
			}
			if rn == "" || rn == "_" {
				rn = fmt.Sprintf("result%d", k)
			}
			lo := 0
			if rs.Len() > 1 {
				lo, _ = tupleRange(rs, k)
			}
			if lo < len(res.L) && res.L[lo] != nil {
				if v.resultFuncs == nil {
					v.resultFuncs = map[int]resultFn{}
				}
				rf := resultFn{key: name + "#" + rn}
				if (sig.Recv() != nil || ifaceRecv) && len(args) > 0 {
					rf.self = args[0]
				}
				v.resultFuncs[res.L[lo].id] = rf
			}
		}
	}
	ev2 := &Eval{v: v, st: s, old: pre, env: env, mode: evalCall, fc: fc, altPkg: ev.altPkg}
	if calleeFn != nil && calleeFn != v.top && calleeFn.Blocks != nil && isModulePkg(fnPkg(calleeFn)) && contractMentionsLocked(fc) {
		// locked(e) in the callee's postconditions: the moment the callee took its own lock, not a lock of this function
		la := pre.clone()
		v.noInterference++ // (keeps ghost scalars; ghost maps and heap arrays the callee can write are unknown)
		v.noInterference--
		v.havocBySummary(la, calleeFn, "Hlk!", true)
		ev2.lockedAt = la
	}
	for _, c := range fc.Clauses {
		if c.Kind == "ensures" && !c.IsLoop {
			// an ensures clause of an assumed (interface / foreign) contract that is tagged with properties is an assumption
			// made only while checking those properties (e.g. "the TOC is well formed" for C02 but not for C04)
			if len(c.Props) > 0 && (fc.Trusted || ifaceRecv) && !hasProp(c.Props, curProp) {
				continue
			}
			// a postcondition that talks about locals of the callee (what the body did with them) is proved in the
			// callee's body; a caller learns nothing from it
			if mentionsCalleeLocal(c.Expr, calleeFn, env) {
				continue
			}
			s.assume(ev2.boolExpr(c.Expr))
		}
	}
	// thorough tier: the state after assuming the callee's postconditions must be reachable (a contradictory contract
	// application would make everything after the call vacuously true)
	if thoroughTier && reachableBefore && s.frame != nil && s.frame.fn == v.top {
		_, txt := v.srcLine(pos)
		v.cover(s, "state after the call of "+name+" in \""+trunc(txt, 60)+"\"")
	}
	return res
}

// mentionsCalleeLocal: e uses a name that is a local variable of fn (and neither a parameter nor a result bound in env).
func mentionsCalleeLocal(e *Expr, fn *ssa.Function, env map[string]*Value) bool {
	if fn == nil || fn.Blocks == nil || e == nil {
		return false
	}
	locals := map[string]bool{}
	for _, b := range fn.Blocks {
		for _, ins := range b.Instrs {
			if a, ok := ins.(*ssa.Alloc); ok && a.Comment != "" {
				locals[a.Comment] = true
			}
		}
	}
	for _, p := range fn.Params {
		delete(locals, p.Name())
	}
	if rs := fn.Signature.Results(); rs != nil {
		for i := 0; i < rs.Len(); i++ {
			delete(locals, rs.At(i).Name())
		}
	}
	var has func(e *Expr, bound map[string]bool) bool
	has = func(e *Expr, bound map[string]bool) bool {
		if e == nil {
			return false
		}
		if e.Op == "id" {
			if _, ok := env[e.Name]; ok || bound[e.Name] {
				return false
			}
			return locals[e.Name]
		}
		if e.Op == "forall" || e.Op == "exists" {
			nb := map[string]bool{e.Name: true}
			for k := range bound {
				nb[k] = true
			}
			bound = nb
		}
		for i, a := range e.Args {
			if e.Op == "call" && i == 0 && false {
				continue
			}
			if has(a, bound) {
				return true
			}
		}
		return false
	}
	return has(e, map[string]bool{})
}

// contractMentionsLocked: some ensures clause of fc uses locked(...).
func contractMentionsLocked(fc *FuncContract) bool {
	var has func(e *Expr) bool
	has = func(e *Expr) bool {
		if e == nil {
			return false
		}
		if e.Op == "call" && e.Name == "locked" {
			return true
		}
		for _, a := range e.Args {
			if has(a) {
				return true
			}
		}
		return false
	}
	for _, c := range fc.Clauses {
		if c.Kind == "ensures" && !c.IsLoop && has(c.Expr) {
			return true
		}
	}
	return false
}

// thoroughTier: extra reachability probes (set by RunCheck for -tier thorough).
var thoroughTier = false

// curProp is the property being checked.
var curProp = ""

func recvName(sig *types.Signature, fc *FuncContract) string {
	if fc != nil && fc.RecvName != "" {
		return fc.RecvName
	}
	if sig.Recv() != nil && sig.Recv().Name() != "" {
		return sig.Recv().Name()
	}
	return "self"
}

// ---------- builtins ----------

func (v *Verifier) callBuiltin(s *State, b *ssa.Builtin, c *ssa.CallCommon, args []*Value, pos token.Pos, instr ssa.Instruction) *Value {
	rt := resultType(c)
	switch b.Name() {
	case "len":
		return scalar(types.Typ[types.Int], v.lenOf(s, args[0]))
	case "cap":
		if isSlice(args[0].T) {
			return scalar(types.Typ[types.Int], args[0].sCap())
		}
		return scalar(types.Typ[types.Int], v.lenOf(s, args[0]))
	case "append":
		return v.doAppend(s, args[0], args[1], pos)
	case "copy":
		return v.doCopy(s, args[0], args[1])
	case "delete":
		v.mapDelete(s, args[0], args[1])
		return nil
	case "panic":
		v.addOb(s, "panic", pos, False, "", nil)
		s.dead = true
		return nil
	case "recover":
		s.note("recover() not modelled")
		return zeroValue(rt)
	case "close":
		ch := args[0].term()
		h := s.heapArr("chan#closed", ArrSort(SInt, SBool))
		v.addOb(s, "close", pos, And(Neq(ch, Int(0)), Not(Select(h, ch))), "", nil)
		v.onClose(s, args[0], pos)
		s.heap["chan#closed"] = Store(s.heapArr("chan#closed", ArrSort(SInt, SBool)), ch, True)
		return nil
	case "min", "max":
		r := args[0].term()
		for _, a := range args[1:] {
			if b.Name() == "min" {
				r = Ite(Le(r, a.term()), r, a.term())
			} else {
				r = Ite(Ge(r, a.term()), r, a.term())
			}
		}
		return scalar(rt, r)
	case "print", "println":
		return nil
	case "clear":
		s.note("clear() approximated")
		v.havocPointees(s, args)
		return nil
	case "ssa:wrapnilchk":
		v.addOb(s, "nil", pos, Neq(args[0].term(), Int(0)), "", nil)
		return args[0]
	case "ssa:deferstack":
		return scalar(rt, Int(0))
	}
	v.abort("builtin %s", b.Name())
	return nil
}

func (v *Verifier) lenOf(s *State, x *Value) *Term {
	switch u := under(x.T).(type) {
	case *types.Slice:
		return x.sLen()
	case *types.Basic:
		return App("slen", SInt, x.term())
	case *types.Map:
		v.mapLenFacts(s, x)
		h := s.heapArr(mapBase(x.T)+"#len", ArrSort(SInt, SInt))
		r := Select(h, x.term())
		addFact(r, And(Le(Int(0), r), Le(r, maxLen)))
		return Ite(Eq(x.term(), Int(0)), Int(0), r)
	case *types.Array:
		return Int(u.Len())
	case *types.Pointer:
		if a, ok := under(u.Elem()).(*types.Array); ok {
			return Int(a.Len())
		}
	case *types.Chan:
		r := Fresh("chanlen", SInt)
		addFact(r, Le(Int(0), r))
		return r
	}
	v.abort("len of %s", x.T)
	return nil
}

func (v *Verifier) doAppend(s *State, dst, src *Value, pos token.Pos) *Value {
	et := under(dst.T).(*types.Slice).Elem()
	var k *Term
	srcIsString := isString(src.T)
	if srcIsString {
		k = App("slen", SInt, src.term())
	} else {
		k = src.sLen()
	}
	newLen := Add(dst.sLen(), k)
	fits := Le(newLen, dst.sCap())
	// result header
	newArr := s.alloc("append", 1)
	newCap := Fresh("appendcap", SInt)
	s.assume(And(Ge(newCap, newLen), Le(newCap, maxLen)))
	s.assume(Le(newLen, maxLen)) // memory is finite: a longer slice cannot exist
	rArr := Ite(fits, dst.sArr(), newArr)
	rOff := Ite(fits, dst.sOff(), Int(0))
	rCap := Ite(fits, dst.sCap(), newCap)
	res := sliceValue(dst.T, rArr, rOff, newLen, rCap)
	// contents: for each leaf array: result[i] = i < len(dst) ? dst[i] : src[i-len(dst)]
	keys := heapKeys(elemBase(et), et, SInt, SInt)
	for ki, hk := range keys {
		h := s.heapArr(hk.name, hk.sort)
		_, inner, _ := arrayParts(hk.sort)
		oldDst := Select(h, dst.sArr())
		var srcArr *Term
		var srcOff *Term
		if srcIsString {
			srcArr = App("str2bytes", ArrSort(SInt, SInt), src.term())
			srcOff = Int(0)
		} else {
			srcArr = Select(h, src.sArr())
			srcOff = src.sOff()
		}
		_ = ki
		na := Fresh("app!"+hk.name, inner)
		j := BoundVar("j!app", SInt)
		// contents of the result window, stated over the absolute index a = rOff + j so that the pattern select(na, a)
		// is free of arithmetic and conditionals
		base := rOff
		rel := Sub(j, base)
		elemAt := Select(na, j)
		// element indices in the elt(off, i) form that quantified facts about the operands use as trigger
		fromDst := Select(oldDst, Elt(dst.sOff(), rel))
		fromSrc := Select(srcArr, Elt(srcOff, Sub(rel, dst.sLen())))
		body := Implies(And(Le(base, j), Lt(j, Add(base, newLen))), Eq(elemAt, Ite(Lt(rel, dst.sLen()), fromDst, fromSrc)))
		// definitions of the fresh array `na`: stated globally, not under the path condition
		addFact(na, Forall([]*Term{j}, body, []*Term{elemAt}))
		// frame for in-place: indices outside the appended window keep old contents
		i2 := BoundVar("i!app", SInt)
		outside := Or(Lt(i2, Add(dst.sOff(), dst.sLen())), Ge(i2, Add(dst.sOff(), newLen)))
		addFact(na, Forall([]*Term{i2}, Implies(And(fits, outside), Eq(Select(na, i2), Select(oldDst, i2))), []*Term{Select(na, i2)}))
		s.heap[hk.name] = Store(h, rArr, na)
	}
	return res
}

func (v *Verifier) doCopy(s *State, dst, src *Value) *Value {
	et := under(dst.T).(*types.Slice).Elem()
	var srcLen *Term
	srcIsString := isString(src.T)
	if srcIsString {
		srcLen = App("slen", SInt, src.term())
	} else {
		srcLen = src.sLen()
	}
	n := Ite(Le(dst.sLen(), srcLen), dst.sLen(), srcLen)
	keys := heapKeys(elemBase(et), et, SInt, SInt)
	for _, hk := range keys {
		h := s.heapArr(hk.name, hk.sort)
		_, inner, _ := arrayParts(hk.sort)
		oldDst := Select(h, dst.sArr())
		var srcArr, srcOff *Term
		if srcIsString {
			srcArr = App("str2bytes", ArrSort(SInt, SInt), src.term())
			srcOff = Int(0)
		} else {
			srcArr = Select(h, src.sArr())
			srcOff = src.sOff()
		}
		na := Fresh("cpy!"+hk.name, inner)
		i := BoundVar("i!cpy", SInt)
		inWin := And(Le(dst.sOff(), i), Lt(i, Add(dst.sOff(), n)))
		val := Ite(inWin, Select(srcArr, Add(srcOff, Sub(i, dst.sOff()))), Select(oldDst, i))
		addFact(na, Forall([]*Term{i}, Eq(Select(na, i), val), []*Term{Select(na, i)}))
		s.heap[hk.name] = Store(h, dst.sArr(), na)
	}
	return scalar(types.Typ[types.Int], n)
}

// ---------- maps ----------

func mapBase(t types.Type) string { return "M:" + typeName(t) }

func mapKeySorts(mt *types.Map) []Sort {
	var ks []Sort
	for _, l := range leafSpecs(mt.Key()) {
		ks = append(ks, l.Sort)
	}
	return ks
}

func nestSort(idx []Sort, elem Sort) Sort {
	s := elem
	for i := len(idx) - 1; i >= 0; i-- {
		s = ArrSort(idx[i], s)
	}
	return s
}

func selectN(a *Term, idx []*Term) *Term {
	for _, i := range idx {
		a = Select(a, i)
	}
	return a
}

func storeN(a *Term, idx []*Term, val *Term) *Term {
	if len(idx) == 1 {
		return Store(a, idx[0], val)
	}
	return Store(a, idx[0], storeN(Select(a, idx[0]), idx[1:], val))
}

func (v *Verifier) mapKeyTerms(k *Value) []*Term {
	for _, l := range k.L {
		if l == nil {
			v.abort("map key with Go-side address")
		}
	}
	return k.L
}

func (v *Verifier) initMap(s *State, r *Term, t types.Type) {
	mt := under(t).(*types.Map)
	ks := mapKeySorts(mt)
	hasSort := ArrSort(SInt, nestSort(ks, SBool))
	h := s.heapArr(mapBase(t)+"#has", hasSort)
	empty := TS.mk(&Term{op: "constarr", sort: nestSort(ks, SBool), args: []*Term{constInner(ks, False)}})
	s.heap[mapBase(t)+"#has"] = Store(h, r, empty)
	ln := s.heapArr(mapBase(t)+"#len", ArrSort(SInt, SInt))
	s.heap[mapBase(t)+"#len"] = Store(ln, r, Int(0))
}

func constInner(ks []Sort, leaf *Term) *Term {
	if len(ks) <= 1 {
		return leaf
	}
	inner := constInner(ks[1:], leaf)
	return TS.mk(&Term{op: "constarr", sort: nestSort(ks[1:], leaf.sort), args: []*Term{inner}})
}

func (v *Verifier) mapHas(s *State, m *Value, k *Value) *Term {
	mt := under(m.T).(*types.Map)
	ks := mapKeySorts(mt)
	h := s.heapArr(mapBase(m.T)+"#has", ArrSort(SInt, nestSort(ks, SBool)))
	has := selectN(Select(h, m.term()), v.mapKeyTerms(k))
	return And(Neq(m.term(), Int(0)), has)
}

func (v *Verifier) mapGet(s *State, m *Value, k *Value) *Value {
	mt := under(m.T).(*types.Map)
	ks := mapKeySorts(mt)
	vt := mt.Elem()
	specs := leafSpecs(vt)
	val := &Value{T: vt, L: make([]*Term, len(specs))}
	for i, sp := range specs {
		h := s.heapArr(mapValHeap(m.T, sp, ks), ArrSort(SInt, nestSort(ks, sp.Sort)))
		val.L[i] = selectN(Select(h, m.term()), v.mapKeyTerms(k))
	}
	valueFacts(val)
	return val
}

func (v *Verifier) execLookup(s *State, t *ssa.Lookup) {
	x := v.reg(s, t.X)
	k := v.reg(s, t.Index)
	if isString(t.X.Type()) {
		idx := k.term()
		v.addOb(s, "idx", t.Pos(), And(Le(Int(0), idx), Lt(idx, App("slen", SInt, x.term()))), "", nil)
		r := App("str.at", SInt, x.term(), idx)
		addFact(r, And(Le(Int(0), r), Le(r, Int(255))))
		v.set(s, t, scalar(t.Type(), r))
		return
	}
	mt := under(t.X.Type()).(*types.Map)
	has := v.mapHas(s, x, k)
	val := v.mapGet(s, x, k)
	s.assumeAllocated(val)
	zero := zeroValue(mt.Elem())
	got := iteValue(has, val, zero)
	got.LV, got.Clo = nil, nil
	if t.CommaOk {
		r := &Value{T: t.Type()}
		r.L = append(r.L, got.L...)
		r.L = append(r.L, has)
		v.set(s, t, r)
		return
	}
	v.set(s, t, &Value{T: t.Type(), L: got.L})
}

// mapLenFacts ties len(m) to the presence relation of the same heap version (partial cardinality axioms, valid for
// every Go map): a present key implies len >= 1; len == 1 implies at most one present key.
func (v *Verifier) mapLenFacts(s *State, m *Value) {
	if m.term().bound {
		return
	}
	mt := under(m.T).(*types.Map)
	ks := mapKeySorts(mt)
	hl := s.heapArr(mapBase(m.T)+"#len", ArrSort(SInt, SInt))
	ln := Select(hl, m.term())
	if !opaque(ln) {
		return
	}
	hh := s.heapArr(mapBase(m.T)+"#has", ArrSort(SInt, nestSort(ks, SBool)))
	hm := Select(hh, m.term())
	var k1, k2 []*Term
	for i, k := range ks {
		k1 = append(k1, BoundVar(fmt.Sprintf("k1!card%d", i), k))
		k2 = append(k2, BoundVar(fmt.Sprintf("k2!card%d", i), k))
	}
	h1 := selectN(hm, k1)
	h2 := selectN(hm, k2)
	addFact(ln, Forall(k1, Implies(h1, Ge(ln, Int(1))), []*Term{h1}))
	var same []*Term
	for i := range k1 {
		same = append(same, Eq(k1[i], k2[i]))
	}
	addFact(ln, Forall(append(append([]*Term{}, k1...), k2...), Implies(And(h1, h2, Eq(ln, Int(1))), And(same...)), []*Term{h1, h2}))
}

func (v *Verifier) mapStore(s *State, m, k, val *Value) {
	v.mapLenFacts(s, m)
	mt := under(m.T).(*types.Map)
	ks := mapKeySorts(mt)
	keys := v.mapKeyTerms(k)
	hasName := mapBase(m.T) + "#has"
	h := s.heapArr(hasName, ArrSort(SInt, nestSort(ks, SBool)))
	was := selectN(Select(h, m.term()), keys)
	s.heap[hasName] = Store(h, m.term(), storeN(Select(h, m.term()), keys, True))
	lnName := mapBase(m.T) + "#len"
	ln := s.heapArr(lnName, ArrSort(SInt, SInt))
	s.heap[lnName] = Store(ln, m.term(), Ite(was, Select(ln, m.term()), Add(Select(ln, m.term()), Int(1))))
	for i, sp := range leafSpecs(mt.Elem()) {
		n := mapValHeap(m.T, sp, ks)
		hv := s.heapArr(n, ArrSort(SInt, nestSort(ks, sp.Sort)))
		l := val.L[i]
		if l == nil {
			l = Fresh("lvleaf", sp.Sort)
		}
		s.heap[n] = Store(hv, m.term(), storeN(Select(hv, m.term()), keys, l))
	}
}

func (v *Verifier) mapDelete(s *State, m, k *Value) {
	v.mapLenFacts(s, m)
	mt := under(m.T).(*types.Map)
	ks := mapKeySorts(mt)
	keys := v.mapKeyTerms(k)
	hasName := mapBase(m.T) + "#has"
	h := s.heapArr(hasName, ArrSort(SInt, nestSort(ks, SBool)))
	was := selectN(Select(h, m.term()), keys)
	nh := Store(h, m.term(), storeN(Select(h, m.term()), keys, False))
	s.heap[hasName] = Ite(Eq(m.term(), Int(0)), h, nh)
	lnName := mapBase(m.T) + "#len"
	ln := s.heapArr(lnName, ArrSort(SInt, SInt))
	s.heap[lnName] = Store(ln, m.term(), Ite(was, Sub(Select(ln, m.term()), Int(1)), Select(ln, m.term())))
}

func (v *Verifier) execNext(s *State, t *ssa.Next) {
	it := v.reg(s, t.Iter)
	src := s.ghost["$range!"+it.L[0].name]
	tt := t.Type().(*types.Tuple)
	ok := Fresh("next!ok", SBool)
	r := &Value{T: tt}
	r.L = append(r.L, ok)
	kT := tt.At(1).Type()
	vT := tt.At(2).Type()
	if t.IsString {
		k := freshValue("next!idx", kT)
		val := freshValue("next!rune", vT)
		if src != nil {
			s.assume(Implies(ok, And(Le(Int(0), k.term()), Lt(k.term(), App("slen", SInt, src.term())))))
		}
		r.L = append(r.L, k.L...)
		r.L = append(r.L, val.L...)
		v.set(s, t, r)
		return
	}
	var k, val *Value
	if _, inv := kT.(*types.Basic); inv && kT.(*types.Basic).Kind() == types.Invalid {
		k = &Value{T: kT, L: []*Term{Int(0)}}
	} else {
		k = freshValue("next!key", kT)
	}
	if src != nil && isMap(src.T) {
		mt := under(src.T).(*types.Map)
		if len(k.L) == len(leafSpecs(mt.Key())) && !isInvalid(kT) {
			kk := &Value{T: mt.Key(), L: k.L}
			s.assume(Implies(ok, v.mapHas(s, src, kk)))
			s.assumeAllocated(kk)
			if !isInvalid(vT) {
				val = v.mapGet(s, src, kk)
				s.assumeAllocated(val)
			}
		}
		// an empty map yields nothing
		s.assume(Implies(ok, Gt(v.lenOf(s, src), Int(0))))
	}
	if val == nil {
		if isInvalid(vT) {
			val = &Value{T: vT, L: []*Term{Int(0)}}
		} else {
			val = freshValue("next!val", vT)
		}
	}
	r.L = append(r.L, k.L...)
	r.L = append(r.L, val.L...)
	v.set(s, t, r)
}

func isInvalid(t types.Type) bool {
	b, ok := t.(*types.Basic)
	return ok && b.Kind() == types.Invalid
}

// ---------- goroutines / channels ----------

func (v *Verifier) execGo(s *State, t *ssa.Go) {
	c := t.Common()
	name := c.Value.Name()
	if f := c.StaticCallee(); f != nil {
		name = funcRef(f)
	}
	v.assumptions["goroutine "+name+" started in "+funcRef(s.frame.fn)+": body not executed in this context; its writes are unknown to the spawner from here on (re-havoc'd at every later call and channel operation)"] = true
	// the function the goroutine runs, and closures it holds in captured variables (wg.Go(f), eg.Go(f) wrappers)
	var fns []*ssa.Function
	seenFn := map[*ssa.Function]bool{}
	var addClo func(clo *Closure)
	addClo = func(clo *Closure) {
		if clo == nil || clo.Fn == nil || seenFn[clo.Fn] {
			return
		}
		seenFn[clo.Fn] = true
		fns = append(fns, clo.Fn)
		for i, b := range clo.Binds {
			if i >= len(clo.Fn.FreeVars) || b == nil || b.L[0] == nil {
				continue
			}
			et := clo.Fn.FreeVars[i].Type().(*types.Pointer).Elem()
			if _, isFn := under(et).(*types.Signature); isFn {
				var val *Value
				if b.LV != nil {
					val = s.load(b.LV)
				} else {
					val = s.loadPtr(b.term(), et)
				}
				if val != nil {
					addClo(val.Clo)
				}
			}
		}
	}
	if f := c.StaticCallee(); f != nil && f.Blocks != nil {
		if !seenFn[f] {
			seenFn[f] = true
			fns = append(fns, f)
		}
		// closures passed as arguments of the goroutine
		for _, a := range c.Args {
			if av := v.regOrNil(s, a); av != nil {
				addClo(av.Clo)
			}
		}
	}
	if fv := v.regOrNil(s, c.Value); fv != nil {
		addClo(fv.Clo)
	}
	for _, f := range fns {
		s.spawned = append(s.spawned[:len(s.spawned):len(s.spawned)], f)
	}
	v.interference(s)
	if ch := v.latchOfGo(s, t); ch != nil {
		h := s.heapArr("chan#running", runningSort)
		s.heap["chan#running"] = Store(h, ch, True)
	}
	gc := s.ghost["$gocount"]
	if gc == nil {
		gc = scalar(types.Typ[types.Int], Int(0))
	}
	s.ghost["$gocount"] = scalar(types.Typ[types.Int], Add(gc.term(), Int(1)))
	// snapshot of ghost variables at the go statement, for the spec function atgo(e)
	for _, k := range sortedKeys(s.ghost) {
		if !strings.HasPrefix(k, "$") {
			s.ghost["$atgo!"+k] = s.ghost[k]
		}
	}
	if h := v.goHook; h != nil {
		h(s, t)
	}
}

// interference: the goroutines started on this path may have written whatever their bodies can write.
func (v *Verifier) interference(s *State) {
	if len(s.spawned) == 0 || v.noInterference > 0 {
		return
	}
	if len(s.held) > 0 {
		// inside a critical section the state read under the lock is taken to be stable (heap arrays are havoc'd as a
		// whole, which would also forget data the held lock protects); interference resumes after the unlock
		v.assumptions["goroutine interference is not applied while a lock is held"] = true
		return
	}
	v.noInterference++
	for _, f := range s.spawned {
		v.havocBySummary(s, f, "Hgo!", true)
	}
	v.noInterference--
}

func (v *Verifier) execSelect(s *State, t *ssa.Select) {
	v.interference(s)
	tt := t.Type().(*types.Tuple)
	r := &Value{T: tt}
	idx := Fresh("select!idx", SInt)
	lo := Int(0)
	if !t.Blocking {
		lo = Int(-1)
	}
	s.assume(And(Le(lo, idx), Lt(idx, Int(int64(len(t.States))))))
	r.L = append(r.L, idx)
	r.L = append(r.L, Fresh("select!recvok", SBool))
	for i := 2; i < tt.Len(); i++ {
		fv := freshValue("select!recv", tt.At(i).Type())
		s.assumeAllocated(fv)
		r.L = append(r.L, fv.L...)
	}
	// closed-channel knowledge: receiving case i on a latch channel implies it was closed
	for i, st := range t.States {
		if st.Dir == types.RecvOnly {
			ch := v.reg(s, st.Chan)
			v.onRecv(s, ch, Eq(idx, Int(int64(i))))
		}
	}
	v.set(s, t, r)
}

func (v *Verifier) execRecv(s *State, t *ssa.UnOp, ch *Value) {
	v.interference(s)
	v.onRecv(s, ch, True)
	et := under(ch.T).(*types.Chan).Elem()
	val := freshValue("recv", et)
	s.assumeAllocated(val)
	if t.CommaOk {
		r := &Value{T: t.Type()}
		r.L = append(r.L, val.L...)
		r.L = append(r.L, Fresh("recv!ok", SBool))
		v.set(s, t, r)
		return
	}
	v.set(s, t, &Value{T: t.Type(), L: val.L})
}

// ---------- latches: channels that are only ever closed by a goroutine's last action ----------
//
// `go func(){ ...; close(c) }()` sets ghost running[c]; a receive from c (which can only succeed once c is closed,
// c being close-only) clears it. Contracts read it with the spec function running(c).

var runningSort = ArrSort(SInt, SBool)

func (v *Verifier) onRecv(s *State, ch *Value, cond *Term) {
	if ch.L[0] == nil {
		return
	}
	h := s.heapArr("chan#running", runningSort)
	s.heap["chan#running"] = Store(h, ch.term(), Ite(cond, False, Select(h, ch.term())))
}

func (v *Verifier) onClose(s *State, ch *Value, pos token.Pos) {}

// latchOfGo finds the channel a goroutine body closes as its last action (nil if none).
func (v *Verifier) latchOfGo(s *State, t *ssa.Go) *Term {
	c := t.Common()
	mc, ok := c.Value.(*ssa.MakeClosure)
	if !ok {
		return nil
	}
	fn := mc.Fn.(*ssa.Function)
	var fv *ssa.FreeVar
	for _, b := range fn.Blocks {
		for _, ins := range b.Instrs {
			call, ok := ins.(*ssa.Call)
			if !ok {
				continue
			}
			if bi, ok := call.Call.Value.(*ssa.Builtin); ok && bi.Name() == "close" {
				// close(*freevar)
				if u, ok := call.Call.Args[0].(*ssa.UnOp); ok {
					if f, ok := u.X.(*ssa.FreeVar); ok {
						fv = f
					}
				}
			}
		}
	}
	if fv == nil {
		return nil
	}
	for i, f := range fn.FreeVars {
		if f == fv && i < len(mc.Bindings) {
			b := v.reg(s, mc.Bindings[i]) // pointer to the captured channel variable
			var chv *Value
			if b.LV != nil {
				chv = s.load(b.LV)
			} else {
				chv = s.loadPtr(b.term(), fv.Type().(*types.Pointer).Elem())
			}
			return chv.term()
		}
	}
	return nil
}

// ---------- modset analysis ----------

func (v *Verifier) modset(fn *ssa.Function) map[string]Sort {
	if m, ok := v.modsets[fn]; ok {
		return m
	}
	m := map[string]Sort{}
	v.modsets[fn] = m
	cells := map[*ssa.Alloc]bool{}
	for _, b := range fn.Blocks {
		for _, ins := range b.Instrs {
			v.collectMods(ins, cells, m, map[*ssa.Function]bool{fn: true})
		}
	}
	return m
}

func addKeys(m map[string]Sort, base string, t types.Type, idx ...Sort) {
	for _, hk := range heapKeys(base, t, idx...) {
		m[hk.name] = hk.sort
	}
}

func addStructKeys(m map[string]Sort, st types.Type) {
	u, ok := under(st).(*types.Struct)
	if !ok {
		return
	}
	for i := 0; i < u.NumFields(); i++ {
		ft := u.Field(i).Type()
		if isStruct(ft) {
			addStructKeys(m, ft)
		} else {
			addKeys(m, structFieldBase(st, i), ft, SInt)
		}
	}
}

// mapValHeap names the heap of one leaf of a map's values; reference leaves are registered for allocation bounds.
func mapValHeap(t types.Type, sp LeafSpec, ks []Sort) string {
	n := mapBase(t) + "#val" + sp.Suffix
	if isRefLeaf(sp) {
		refHeaps[n] = 1 + len(ks)
	}
	return n
}

func addMapKeys(m map[string]Sort, t types.Type) {
	mt := under(t).(*types.Map)
	ks := mapKeySorts(mt)
	m[mapBase(t)+"#has"] = ArrSort(SInt, nestSort(ks, SBool))
	m[mapBase(t)+"#len"] = ArrSort(SInt, SInt)
	for _, sp := range leafSpecs(mt.Elem()) {
		m[mapValHeap(t, sp, ks)] = ArrSort(SInt, nestSort(ks, sp.Sort))
	}
}

func (v *Verifier) collectMods(ins ssa.Instruction, cells map[*ssa.Alloc]bool, heap map[string]Sort, visiting map[*ssa.Function]bool) {
	switch t := ins.(type) {
	case *ssa.Store:
		v.modAddr(t.Addr, cells, heap)
	case *ssa.MapUpdate:
		addMapKeys(heap, t.Map.Type())
	case *ssa.Alloc:
		if !t.Heap {
			cells[t] = true
		}
	case ssa.CallInstruction:
		c := t.Common()
		if b, ok := c.Value.(*ssa.Builtin); ok {
			switch b.Name() {
			case "append", "copy":
				if sl, ok := under(c.Args[0].Type()).(*types.Slice); ok {
					addKeys(heap, elemBase(sl.Elem()), sl.Elem(), SInt, SInt)
				}
			case "delete":
				addMapKeys(heap, c.Args[0].Type())
			case "close":
				heap["chan#closed"] = ArrSort(SInt, SBool)
			}
			return
		}
		// a call that is handed a func value may run it: closures created in this function may be that value
		for _, a := range c.Args {
			if _, isFn := under(a.Type()).(*types.Signature); isFn {
				if fn := ins.Parent(); fn != nil {
					for _, anon := range fn.AnonFuncs {
						v.modsetInto(anon, cells, heap, visiting)
					}
				}
				break
			}
		}
		var callee *ssa.Function
		if !c.IsInvoke() {
			callee = c.StaticCallee()
			if callee == nil {
				if mc, ok := c.Value.(*ssa.MakeClosure); ok {
					callee = mc.Fn.(*ssa.Function)
				}
			}
		}
		if callee == nil {
			// dynamic call: closures created in this function may be the target
			if fn := ins.Parent(); fn != nil && !c.IsInvoke() {
				for _, anon := range fn.AnonFuncs {
					v.modsetInto(anon, cells, heap, visiting)
				}
			}
			// pointer / slice args may be written (module structs assumed untouched by dynamic callees)
			for _, a := range c.Args {
				_, isLocal := a.(*ssa.Alloc)
				v.modArgPolicy(a.Type(), heap, !(isLocal && !c.IsInvoke()))
			}
			return
		}
		name := callee.String()
		if _, ok := natives[name]; ok {
			if strings.Contains(name, "sync/atomic") || strings.Contains(name, "atomic.") {
				for _, a := range c.Args {
					v.modAddr(a, cells, heap)
				}
			}
			return
		}
		if fc := v.contracts.forFunc(callee); fc != nil && fc.hasCallContract() {
			// explicit modifies are expressed in callee terms; conservatively use callee's syntactic modset if body is available
			if callee.Blocks != nil {
				v.modsetInto(callee, cells, heap, visiting)
			}
			return
		}
		if callee.Blocks != nil && isModulePkg(fnPkg(callee)) {
			v.modsetInto(callee, cells, heap, visiting)
			return
		}
		for _, a := range c.Args {
			v.modArg(a.Type(), heap)
		}
	}
}

func (v *Verifier) modsetInto(callee *ssa.Function, cells map[*ssa.Alloc]bool, heap map[string]Sort, visiting map[*ssa.Function]bool) {
	if visiting[callee] {
		return
	}
	visiting[callee] = true
	for _, b := range callee.Blocks {
		for _, ins := range b.Instrs {
			v.collectMods(ins, cells, heap, visiting)
		}
	}
}

func (v *Verifier) modArg(t types.Type, heap map[string]Sort) { v.modArgPolicy(t, heap, false) }

func (v *Verifier) modArgPolicy(t types.Type, heap map[string]Sort, dynamic bool) {
	switch u := under(t).(type) {
	case *types.Pointer:
		if isStruct(u.Elem()) {
			if isModuleType(u.Elem()) && !dynamic {
				addStructKeys(heap, u.Elem())
			}
		} else {
			addKeys(heap, "P:"+typeName(u.Elem()), u.Elem(), SInt)
		}
	case *types.Slice:
		addKeys(heap, elemBase(u.Elem()), u.Elem(), SInt, SInt)
	case *types.Map:
		addMapKeys(heap, t)
	}
}

func (v *Verifier) modAddr(addr ssa.Value, cells map[*ssa.Alloc]bool, heap map[string]Sort) {
	switch a := addr.(type) {
	case *ssa.Alloc:
		if !a.Heap {
			cells[a] = true
			return
		}
		et := a.Type().(*types.Pointer).Elem()
		if isStruct(et) {
			addStructKeys(heap, et)
		} else if at, ok := under(et).(*types.Array); ok {
			addKeys(heap, elemBase(at.Elem()), at.Elem(), SInt, SInt)
		} else {
			addKeys(heap, "P:"+typeName(et), et, SInt)
		}
	case *ssa.FieldAddr:
		stT := under(a.X.Type()).(*types.Pointer).Elem()
		st := under(stT).(*types.Struct)
		ft := st.Field(a.Field).Type()
		// if base is a local cell path, the cell is modified
		if root := rootAlloc(a.X); root != nil && !root.Heap {
			cells[root] = true
			return
		}
		if isElemRoot(a.X) {
			// field of a slice element
			v.modAddr(a.X, cells, heap)
			return
		}
		if isStruct(ft) {
			addStructKeys(heap, ft)
		} else {
			addKeys(heap, structFieldBase(stT, a.Field), ft, SInt)
		}
	case *ssa.IndexAddr:
		switch u := under(a.X.Type()).(type) {
		case *types.Slice:
			addKeys(heap, elemBase(u.Elem()), u.Elem(), SInt, SInt)
		case *types.Pointer:
			if root := rootAlloc(a.X); root != nil && !root.Heap {
				cells[root] = true
				return
			}
			at := under(u.Elem()).(*types.Array)
			if fa, ok := a.X.(*ssa.FieldAddr); ok {
				v.modAddr(fa, cells, heap)
				return
			}
			addKeys(heap, elemBase(at.Elem()), at.Elem(), SInt, SInt)
		}
	default:
		// store through a pointer value (param, loaded pointer, free var)
		pt, ok := under(addr.Type()).(*types.Pointer)
		if !ok {
			return
		}
		et := pt.Elem()
		if isStruct(et) {
			addStructKeys(heap, et)
		} else {
			addKeys(heap, "P:"+typeName(et), et, SInt)
		}
	}
}

func rootAlloc(x ssa.Value) *ssa.Alloc {
	for {
		switch a := x.(type) {
		case *ssa.Alloc:
			return a
		case *ssa.FieldAddr:
			x = a.X
		case *ssa.IndexAddr:
			if _, ok := under(a.X.Type()).(*types.Pointer); ok {
				x = a.X
			} else {
				return nil
			}
		default:
			return nil
		}
	}
}

func isElemRoot(x ssa.Value) bool {
	for {
		switch a := x.(type) {
		case *ssa.FieldAddr:
			x = a.X
		case *ssa.IndexAddr:
			if _, ok := under(a.X.Type()).(*types.Slice); ok {
				return true
			}
			x = a.X
		default:
			return false
		}
	}
}


// recursionMeasure emits the termination obligation of a recursive call of the function under verification.
func (v *Verifier) recursionMeasure(s *State, fc *FuncContract, callee *ssa.Function, args []*Value, pos token.Pos) {
	if !fc.Terminates {
		return
	}
	if fc.Decreases == nil {
		v.addOb(s, "dec", pos, False, "recursive call of "+funcRef(callee)+" without a decreasing measure", fc.Decreases2Props())
		return
	}
	// measure at entry (entry args, entry heap) and at the call (call args, current heap)
	e0 := &Eval{v: v, st: v.entry, old: v.entry, env: map[string]*Value{}, mode: evalPre, fn: callee, fc: fc, pkg: fnPkg(callee)}
	m0 := e0.intExpr(fc.Decreases.Expr)
	env := map[string]*Value{}
	for i, p := range callee.Params {
		if i < len(args) {
			env[p.Name()] = args[i]
		}
	}
	e1 := &Eval{v: v, st: s, old: s, env: env, mode: evalCall, fc: fc, pkg: fnPkg(callee)}
	m1 := e1.intExpr(fc.Decreases.Expr)
	v.addOb(s, "dec", pos, And(Le(Int(0), m0), Lt(m1, m0)), "decreases "+fc.Decreases.Text, fc.Decreases.Props)
}

func (fc *FuncContract) Decreases2Props() []string { return nil }


// applyFieldCallback applies a `callback <field>` contract: like a call by contract with `self` bound to the object
// the func value was loaded from.
func (v *Verifier) applyFieldCallback(s *State, fc *FuncContract, sig *types.Signature, self *Value, args []*Value, pos token.Pos, rt types.Type, name string) *Value {
	full := append([]*Value{self}, args...)
	return v.applyContractNamed(s, fc, sig, full, pos, rt, name, true)
}


// callback-loop invariants (clause `callbackinv`)
func (v *Verifier) callbackInvs(s *State, callee string, args []*Value) []*SiteAssert {
	hasClo := false
	for _, a := range args {
		if a != nil && a.Clo != nil {
			hasClo = true
		}
	}
	if !hasClo || s.frame == nil {
		return nil
	}
	fc := v.contracts.forFunc(s.frame.fn)
	if fc == nil {
		return nil
	}
	var out []*SiteAssert
	for _, ci := range fc.CallbackInvs {
		if ci.Match == callee {
			out = append(out, ci)
		}
	}
	return out
}

func (v *Verifier) checkCallbackInvs(s *State, invs []*SiteAssert, pos token.Pos) {
	for _, ci := range invs {
		ev := v.newEval(s, s.frame.fn, v.cellsOf(s), evalLoop)
		v.addOb(s, "inv-entry", pos, ev.boolExpr(ci.Expr), "callbackinv "+ci.Match+": "+ci.Text, ci.Props)
	}
}

func (v *Verifier) assumeCallbackInvs(s *State, invs []*SiteAssert) {
	for _, ci := range invs {
		ev := v.newEval(s, s.frame.fn, v.cellsOf(s), evalLoop)
		s.assume(ev.boolExpr(ci.Expr))
	}
}

func (v *Verifier) cellsOf(s *State) *frameCells {
	if s.frame != nil && s.frame.fn == v.top {
		return v.topCells
	}
	return nil
}
