package main

import (
	"math/big"
	"fmt"
	"go/constant"
	"go/token"
	"go/types"
	"os"
	"sort"
	"strings"

	"golang.org/x/tools/go/ssa"
)

type Obligation struct {
	Name    string
	Kind    string
	Func    string
	Pos     string
	Clause  string
	Props   []string
	pairs   [][2]*Term // (pc, goal)
	notes   []string
	Quant   bool
	Result  *SolveResult
	SMTSize int
	script  string
	scripts []string
}

type Exit struct {
	st      *State
	results []*Value
}

type fnAnalysis struct {
	rpo      []*ssa.BasicBlock
	backEdge map[[2]int]bool            // (from,to) block indices
	loops    map[*ssa.BasicBlock]*loopInfo // by header
	loopOrd  []*ssa.BasicBlock             // headers in source order
}

type loopInfo struct {
	header   *ssa.BasicBlock
	body     map[*ssa.BasicBlock]bool
	ordinal  int
	modCells map[*ssa.Alloc]bool
	modHeap  map[string]Sort
	calls    bool
}

type Verifier struct {
	prog      *ssa.Program
	fset      *token.FileSet
	contracts *ContractSet
	obls      map[string]*Obligation
	oblOrder  []string
	top       *ssa.Function
	topC      *FuncContract
	entry     *State // entry snapshot of the top-level function (for old())
	entryArgs map[string]*Value
	analyses  map[*ssa.Function]*fnAnalysis
	modsets   map[*ssa.Function]map[string]Sort
	trusted   map[string]bool // havoc'd callees without contract
	byContract map[string]bool
	inlinedFns map[string]bool
	outOfSubset []string
	cellSeq   int
	vacProbes, vacOK int
	coverSeen   map[string]bool // cover target -> reached on some path (sat or unknown)
	coverOrder  []string
	suppressObs int
	noInterference int
	resultFuncs map[int]resultFn // leaf term id of a func value returned by a contract call -> its contract
	sums        map[*ssa.Function]*fnSummary
	sumChanged  bool
	sumReached  map[*ssa.Function]bool
	curCallee   *ssa.Function // static callee whose contract is being applied
	forks       []fork
	siteMap     map[*ssa.Function]map[ssa.Instruction][]*SiteAssert
	curFnValue  *Value // function value of the dynamic call whose contract is being applied (`fnvalue` in contracts)
	noFork      int
	lockSnap    map[string]*State
	firstLockSnap *State
	curCells  *frameCells
	topCells  *frameCells
	topClo    *Closure
	goHook    func(s *State, t *ssa.Go)
	siteSeen  map[string]int
	srcCache  map[string][]string
	maxStates int
	inlineDepth int
	curProps  []string
	ghostDecl map[string]*GhostDecl
	assumptions map[string]bool
}

func NewVerifier(prog *ssa.Program, fset *token.FileSet, cs *ContractSet) *Verifier {
	return &Verifier{prog: prog, fset: fset, contracts: cs, obls: map[string]*Obligation{},
		analyses: map[*ssa.Function]*fnAnalysis{}, modsets: map[*ssa.Function]map[string]Sort{},
		trusted: map[string]bool{}, byContract: map[string]bool{}, inlinedFns: map[string]bool{},
		siteSeen: map[string]int{}, srcCache: map[string][]string{}, maxStates: 256, assumptions: map[string]bool{}, lockSnap: map[string]*State{}, siteMap: map[*ssa.Function]map[ssa.Instruction][]*SiteAssert{}}
}

var repoRoot = "/repo"

type abortExec struct{ msg string }

func (v *Verifier) abort(format string, a ...interface{}) {
	panic(abortExec{fmt.Sprintf(format, a...)})
}

// ---------- source text helpers ----------

func (v *Verifier) srcLine(pos token.Pos) (string, string) {
	if !pos.IsValid() {
		return "?", "?"
	}
	p := v.fset.Position(pos)
	lines, ok := v.srcCache[p.Filename]
	if !ok {
		b, err := os.ReadFile(p.Filename)
		if err == nil {
			lines = strings.Split(string(b), "\n")
		}
		v.srcCache[p.Filename] = lines
	}
	txt := "?"
	if p.Line-1 < len(lines) && p.Line >= 1 {
		txt = strings.TrimSpace(lines[p.Line-1])
	}
	return fmt.Sprintf("%s:%d", strings.TrimPrefix(p.Filename, repoRoot+"/"), p.Line), txt
}

func funcRef(fn *ssa.Function) string {
	// pkgshort.(recv).Name$k
	name := fn.Name()
	if fn.Parent() != nil {
		// closure: parentRef$N
		return funcRef(fn.Parent()) + strings.TrimPrefix(name, fn.Parent().Name())
	}
	pkg := ""
	if fn.Pkg != nil {
		pkg = shortPkg(fn.Pkg.Pkg.Path())
	} else if fn.Object() != nil && fn.Object().Pkg() != nil {
		pkg = shortPkg(fn.Object().Pkg().Path())
	}
	if recv := fn.Signature.Recv(); recv != nil {
		rt := recv.Type()
		ptr := ""
		if p, ok := rt.(*types.Pointer); ok {
			rt = p.Elem()
			ptr = "*"
		}
		tn := rt.String()
		if n, ok := types.Unalias(rt).(*types.Named); ok {
			tn = n.Obj().Name()
		}
		return pkg + ".(" + ptr + tn + ")." + name
	}
	return pkg + "." + name
}

type resultFn struct {
	key  string
	self *Value
}

// ---------- obligations ----------

func (v *Verifier) addOb(st *State, kind string, pos token.Pos, goal *Term, clause string, props []string) {
	if v.suppressObs > 0 {
		st.assume(goal)
		return
	}
	if goal.isTrue() {
		// still count trivially-true sites? keep them out of solver but record
	}
	where, txt := v.srcLine(pos)
	if clause == "" {
		clause = txt
	}
	site := trunc(txt, 70)
	fname := funcRef(v.top)
	in := ""
	if st.frame != nil && st.frame.fn != v.top {
		in = "/in:" + funcRef(st.frame.fn)
	}
	name := fmt.Sprintf("%s#%s@%q%s", fname, kind, site, in)
	if kind == "post" || kind == "inv-entry" || kind == "inv-step" || kind == "dec" || kind == "pre" || kind == "lock" || kind == "monitor" || kind == "frame" || kind == "assert" || kind == "step" {
		name = fmt.Sprintf("%s#%s@%q%s", fname, kind, trunc(clause, 90), in)
		if kind == "pre" || kind == "lock" || kind == "monitor" || (kind == "dec" && strings.HasPrefix(clause, "decreases ")) || (kind == "dec" && strings.HasPrefix(clause, "recursive call")) {
			name = fmt.Sprintf("%s#%s@%q@%q%s", fname, kind, trunc(clause, 70), site, in)
		}
	}
	ob, ok := v.obls[name]
	if !ok {
		ob = &Obligation{Name: name, Kind: kind, Func: fname, Pos: where, Clause: clause, Props: props}
		v.obls[name] = ob
		v.oblOrder = append(v.oblOrder, name)
	}
	ob.pairs = append(ob.pairs, [2]*Term{st.pcTerm(), goal})
	if os.Getenv("GOVC_DEBUG") == "goal" {
		fmt.Fprintf(os.Stderr, "DEBUG ob %s goal=%s\n", name, trunc(goal.String(), 700))
	}
	for _, n := range st.notes {
		found := false
		for _, m := range ob.notes {
			if m == n {
				found = true
			}
		}
		if !found {
			ob.notes = append(ob.notes, n)
		}
	}
	// continue under the assumption that the check passed
	st.assume(goal)
}

// ---------- CFG analysis ----------

func (v *Verifier) analyze(fn *ssa.Function) *fnAnalysis {
	if a, ok := v.analyses[fn]; ok {
		return a
	}
	a := &fnAnalysis{backEdge: map[[2]int]bool{}, loops: map[*ssa.BasicBlock]*loopInfo{}}
	// back edges: u->h where h dominates u
	for _, b := range fn.Blocks {
		for _, s := range b.Succs {
			if s.Dominates(b) {
				a.backEdge[[2]int{b.Index, s.Index}] = true
				li := a.loops[s]
				if li == nil {
					li = &loopInfo{header: s, body: map[*ssa.BasicBlock]bool{s: true}, modCells: map[*ssa.Alloc]bool{}, modHeap: map[string]Sort{}}
					a.loops[s] = li
				}
				// natural loop body: nodes reaching b without passing s
				stack := []*ssa.BasicBlock{b}
				for len(stack) > 0 {
					x := stack[len(stack)-1]
					stack = stack[:len(stack)-1]
					if li.body[x] {
						continue
					}
					li.body[x] = true
					for _, p := range x.Preds {
						stack = append(stack, p)
					}
				}
			}
		}
	}
	// RPO ignoring back edges
	visited := map[*ssa.BasicBlock]bool{}
	var post []*ssa.BasicBlock
	var dfs func(b *ssa.BasicBlock)
	dfs = func(b *ssa.BasicBlock) {
		visited[b] = true
		for _, s := range b.Succs {
			if a.backEdge[[2]int{b.Index, s.Index}] {
				continue
			}
			if !visited[s] {
				dfs(s)
			}
		}
		post = append(post, b)
	}
	if len(fn.Blocks) > 0 {
		dfs(fn.Blocks[0])
		if fn.Recover != nil && !visited[fn.Recover] {
			// recover block not executed
		}
	}
	for i := len(post) - 1; i >= 0; i-- {
		a.rpo = append(a.rpo, post[i])
	}
	// loop ordinals in source order of header position
	for h := range a.loops {
		a.loopOrd = append(a.loopOrd, h)
	}
	sort.Slice(a.loopOrd, func(i, j int) bool { return loopPos(a.loopOrd[i]) < loopPos(a.loopOrd[j]) })
	for i, h := range a.loopOrd {
		a.loops[h].ordinal = i
	}
	// modified cells / heap per loop
	for _, li := range a.loops {
		for b := range li.body {
			for _, ins := range b.Instrs {
				v.collectMods(ins, li.modCells, li.modHeap, map[*ssa.Function]bool{fn: true})
				if _, ok := ins.(ssa.CallInstruction); ok {
					li.calls = true
				}
			}
		}
	}
	v.analyses[fn] = a
	return a
}

func loopPos(h *ssa.BasicBlock) token.Pos {
	// position of the first instruction with a valid pos in the header or its successors
	best := token.Pos(1 << 30)
	for _, ins := range h.Instrs {
		if p := ins.Pos(); p.IsValid() && p < best {
			best = p
		}
	}
	if best == 1<<30 {
		for _, s := range h.Succs {
			for _, ins := range s.Instrs {
				if p := ins.Pos(); p.IsValid() && p < best {
					best = p
				}
			}
		}
	}
	return best
}

// ---------- running a function ----------

func (v *Verifier) newCell(fr *Frame, a *ssa.Alloc) *Cell {
	v.cellSeq++
	return &Cell{Name: a.Comment, T: a.Type().(*types.Pointer).Elem(), id: v.cellSeq, Pos: int(a.Pos())}
}

type frameCells struct {
	m map[*ssa.Alloc]*Cell
}

var frameCellMaps = map[*Frame]*frameCells{}

// runFunc executes fn from state st; returns exits.
func (v *Verifier) runFunc(fn *ssa.Function, st *State, args []*Value, clo *Closure) []*Exit {
	if fn.Blocks == nil {
		v.abort("function %s has no body", fn)
	}
	an := v.analyze(fn)
	depth := 0
	if st.frame != nil {
		depth = st.frame.depth + 1
	}
	fr := &Frame{fn: fn, regs: map[ssa.Value]*Value{}, parent: st.frame, depth: depth}
	fc := &frameCells{m: map[*ssa.Alloc]*Cell{}}
	if fr.parent == nil {
		v.topCells = fc
	}
	st.frame = fr
	for i, p := range fn.Params {
		if i < len(args) {
			fr.regs[p] = args[i]
		} else {
			fr.regs[p] = freshValue("arg!"+p.Name(), p.Type())
		}
	}
	if clo != nil {
		for i, fv := range fn.FreeVars {
			if i < len(clo.Binds) {
				fr.regs[fv] = clo.Binds[i]
			}
		}
	} else {
		for _, fv := range fn.FreeVars {
			x := freshValue("free!"+fv.Name(), fv.Type())
			st.assume(Neq(x.term(), Int(0)))
			fr.regs[fv] = x
		}
	}
	v.runGhostEntry(fn, st, args, fc)
	in := map[*ssa.BasicBlock][]*State{fn.Blocks[0]: {st}}
	var exits []*Exit
	// header measure snapshots are stored per state in ghost keys
	for _, b := range an.rpo {
		states := in[b]
		delete(in, b)
		if len(states) == 0 {
			continue
		}
		states = mergeStates(states)
		if len(states) > v.maxStates {
			if os.Getenv("GOVC_DEBUG") == "merge" && len(states) >= 2 {
				a, c := states[0], states[1]
				fmt.Fprintf(os.Stderr, "DEBUG merge block %d (%s) states=%d\n", b.Index, b.Comment, len(states))
				for k, ta := range a.heap {
					if tb, ok := c.heap[k]; ok && ta != tb {
						fmt.Fprintf(os.Stderr, "   heap %s differs:\n      %s\n      %s\n", k, trunc(ta.String(), 300), trunc(tb.String(), 300))
					} else if !ok {
						fmt.Fprintf(os.Stderr, "   heap %s only in first\n", k)
					}
				}
				fmt.Fprintf(os.Stderr, "   held %d/%d defers %d/%d lazy %d/%d locksnap %v\n", len(a.held), len(c.held), len(a.frame.defers), len(c.frame.defers), len(a.lazyHavoc), len(c.lazyHavoc), a.lockSnap == c.lockSnap)
			}
			v.abort("path explosion in %s at block %d (%d states)", funcRef(fn), b.Index, len(states))
		}
		li := an.loops[b]
		for _, s := range states {
			if li != nil {
				v.cutLoop(fn, an, li, s, fc)
			}
			v.execBlock(fn, an, b, s, fc, in, &exits)
		}
	}
	return exits
}

func (v *Verifier) reg(st *State, x ssa.Value) *Value {
	switch c := x.(type) {
	case *ssa.Const:
		return v.constValue(c)
	case *ssa.Function:
		return &Value{T: c.Type(), L: []*Term{Const("fn!"+funcRef(c), SInt)}, Clo: &Closure{Fn: c}}
	case *ssa.Global:
		// address of a global: pointer into P heap (or struct object) at a fixed address
		addr := Const("glob!"+shortPkg(c.Pkg.Pkg.Path())+"."+c.Name(), SInt)
		addFact(addr, Gt(addr, Int(0)))
		return &Value{T: c.Type(), L: []*Term{addr}}
	case *ssa.Builtin:
		return &Value{T: types.Typ[types.Int], L: []*Term{Int(0)}}
	}
	if val, ok := st.frame.regs[x]; ok {
		return val
	}
	v.abort("no value for %s (%T) in %s", x.Name(), x, funcRef(st.frame.fn))
	return nil
}

func (v *Verifier) constValue(c *ssa.Const) *Value {
	t := c.Type()
	if c.Value == nil {
		return zeroValue(t)
	}
	switch c.Value.Kind() {
	case constant.Bool:
		return scalar(t, Bool(constant.BoolVal(c.Value)))
	case constant.String:
		return scalar(t, StrLit(constant.StringVal(c.Value)))
	case constant.Int:
		if isFloat(t) {
			return scalar(t, Const("flt!"+sanitize(c.Value.ExactString()), SInt))
		}
		bi, ok := constant.Val(c.Value).(interface{ String() string })
		_ = bi
		_ = ok
		n := new(bigInt)
		n.SetString(c.Value.ExactString(), 10)
		return scalar(t, IntBig(n))
	case constant.Float, constant.Complex:
		return scalar(t, Const("flt!"+sanitize(c.Value.ExactString()), SInt))
	}
	return zeroValue(t)
}

// ---------- loops ----------

func (v *Verifier) loopSteps(fn *ssa.Function, li *loopInfo) (steps []*Clause) {
	fc := v.contracts.forFunc(fn)
	if fc == nil {
		return
	}
	for _, c := range fc.Clauses {
		if c.IsLoop && c.Loop == li.ordinal && c.Kind == "step" {
			steps = append(steps, c)
		}
	}
	return
}

func (v *Verifier) loopClauses(fn *ssa.Function, li *loopInfo) (invs []*Clause, decs []*Clause, mods []*Clause) {
	fc := v.contracts.forFunc(fn)
	if fc == nil {
		return
	}
	for _, c := range fc.Clauses {
		if c.Loop != li.ordinal || !c.IsLoop {
			continue
		}
		switch c.Kind {
		case "invariant":
			invs = append(invs, c)
		case "decreases":
			decs = append(decs, c)
		case "modifies":
			mods = append(mods, c)
		}
	}
	return
}

func (v *Verifier) cutLoop(fn *ssa.Function, an *fnAnalysis, li *loopInfo, s *State, fc *frameCells) {
	invs, decs, _ := v.loopClauses(fn, li)
	pos := loopPos(li.header)
	ev := v.newEval(s, fn, fc, evalLoop)
	ev.loop = li
	for _, c := range invs {
		g := ev.boolExpr(c.Expr)
		v.addOb(s, "inv-entry", pos, g, fmt.Sprintf("loop %d invariant %s", li.ordinal, c.Text), c.Props)
	}
	// havoc modified cells and heap
	for a := range li.modCells {
		cell := fc.m[a]
		if cell == nil {
			continue
		}
		if _, ok := s.cells[cell]; ok {
			nv := freshValue("loop!"+cell.Name, cell.T)
			s.assumeAllocated(nv)
			s.cells[cell] = nv
		}
	}
	if li.calls {
		s.bumpWM()
		// calls in the body may change ghost globals of this package (through contracts): unknown at the loop head
		// unless an invariant says otherwise
		scope := shortPkg(fnPkg(v.top).Path())
		for _, g := range sortedKeys(s.ghost) {
			if strings.HasPrefix(g, "$") || !v.contracts.ghostInScope(g, scope) {
				continue
			}
			if isMap(s.ghost[g].T) {
				continue // ghost maps live in the heap (M: arrays), havoc'd with li.modHeap
			}
			if tfc := v.contracts.forFunc(v.top); tfc != nil && hasModifies(tfc) && !modifiesNamesGhost(tfc, g) {
				continue // the function's frame keeps it (checked on the back edge)
			}
			if v.contracts.ghostQuiet(g, scope) && !v.loopMayModifyGhost(li, g) {
				continue // a quiet ghost changes only through contracts that name it; none is reachable from this loop
			}
			if os.Getenv("GOVC_DEBUG") == "loopghost" {
				fmt.Fprintf(os.Stderr, "DEBUG loopghost %s loop %d of %s havocs %s\n", funcRef(v.top), li.ordinal, funcRef(fn), g)
			}
			s.ghost[g] = freshValue("loop!ghost!"+g, s.ghost[g].T)
		}
	}
	for _, k := range sortedKeys(li.modHeap) {
		s.freshHeap("Hl!", k, li.modHeap[k])
	}
	v.rangeIndexInvariant(li, s, fc)
	ev = v.newEval(s, fn, fc, evalLoop)
	ev.loop = li
	for _, c := range invs {
		s.assume(ev.boolExpr(c.Expr))
	}
	// the frame of the function under verification holds at every loop head (checked on the back edge)
	if v.suppressObs == 0 {
		_, fgoals := v.frameGoals(s, li.modHeap)
		for _, g := range fgoals {
			s.assume(g)
		}
	}
	// snapshot of the iteration start for `loop N step` clauses (prev(e))
	if len(v.loopSteps(fn, li)) > 0 {
		if s.snaps == nil {
			s.snaps = map[string]*State{}
		}
		s.snaps[fmt.Sprintf("loophead!%p!%d", fn, li.ordinal)] = s.clone()
	}
	// record measure at loop head
	for i, c := range decs {
		m := ev.intExpr(c.Expr)
		s.ghost[fmt.Sprintf("$measure!%p!%d!%d", fn, li.ordinal, i)] = scalar(types.Typ[types.Int], m)
	}
}

func (v *Verifier) backEdge(fn *ssa.Function, an *fnAnalysis, li *loopInfo, s *State, fc *frameCells) {
	invs, decs, _ := v.loopClauses(fn, li)
	pos := loopPos(li.header)
	ev := v.newEval(s, fn, fc, evalLoop)
	ev.loop = li
	for _, c := range invs {
		g := ev.boolExpr(c.Expr)
		v.addOb(s, "inv-step", pos, g, fmt.Sprintf("loop %d invariant %s", li.ordinal, c.Text), c.Props)
	}
	if v.suppressObs == 0 {
		fkeys, fgoals := v.frameGoals(s, li.modHeap)
		for i, k := range fkeys {
			v.addOb(s, "frame", pos, fgoals[i], fmt.Sprintf("loop %d modifies: %s changes only at the declared targets", li.ordinal, k), nil)
		}
	}
	for i, c := range decs {
		m0v := s.ghost[fmt.Sprintf("$measure!%p!%d!%d", fn, li.ordinal, i)]
		if m0v == nil {
			continue
		}
		m0 := m0v.term()
		m := ev.intExpr(c.Expr)
		v.addOb(s, "dec", pos, And(Le(Int(0), m0), Lt(m, m0)), fmt.Sprintf("loop %d decreases %s", li.ordinal, c.Text), c.Props)
	}
	for _, c := range v.loopSteps(fn, li) {
		snap := s.snaps[fmt.Sprintf("loophead!%p!%d", fn, li.ordinal)]
		if snap == nil {
			continue
		}
		sev := v.newEval(s, fn, fc, evalLoop)
		sev.loop = li
		sev.prev = snap
		v.addOb(s, "step", pos, sev.boolExpr(c.Expr), fmt.Sprintf("loop %d step %s", li.ordinal, c.Text), c.Props)
	}
	if len(decs) == 0 && v.wantTermination(fn) && !v.isStructuralLoop(li) {
		v.addOb(s, "dec", pos, False, fmt.Sprintf("loop %d has no decreases clause", li.ordinal), nil)
	}
}

// rangeIndexInvariant adds the structural invariant -1 <= idx <= len-1 of go/ssa's rangeindex loops.
func (v *Verifier) rangeIndexInvariant(li *loopInfo, s *State, fc *frameCells) {
	if li.header.Comment != "rangeindex.loop" {
		return
	}
	// pattern: t8 = *idx; t9 = t8 + 1; *idx = t9; t10 = t9 < len
	var idxAlloc *ssa.Alloc
	var lenVal ssa.Value
	for _, ins := range li.header.Instrs {
		if b, ok := ins.(*ssa.BinOp); ok && b.Op == token.LSS {
			lenVal = b.Y
		}
		if st, ok := ins.(*ssa.Store); ok {
			if a, ok := st.Addr.(*ssa.Alloc); ok && a.Comment == "rangeindex" {
				idxAlloc = a
			}
		}
	}
	if idxAlloc == nil || lenVal == nil {
		return
	}
	cell := fc.m[idxAlloc]
	if cell == nil {
		return
	}
	cur, ok := s.cells[cell]
	if !ok {
		return
	}
	ln := v.regOrNil(s, lenVal)
	if ln == nil {
		return
	}
	s.assume(And(Le(Int(-1), cur.term()), Le(cur.term(), Sub(ln.term(), Int(1)))))
}

func (v *Verifier) isStructuralLoop(li *loopInfo) bool {
	switch li.header.Comment {
	case "rangeindex.loop", "rangeint.loop", "rangeiter.loop":
		return true
	}
	return false
}

func (v *Verifier) wantTermination(fn *ssa.Function) bool {
	fc := v.contracts.forFunc(fn)
	return fc != nil && fc.Terminates
}

// ---------- blocks ----------

type fork struct {
	st  *State
	val *Value
}

func (v *Verifier) execBlock(fn *ssa.Function, an *fnAnalysis, b *ssa.BasicBlock, s *State, fc *frameCells, in map[*ssa.BasicBlock][]*State, exits *[]*Exit) {
	v.execFrom(fn, an, b, 0, s, fc, in, exits)
}

func (v *Verifier) execFrom(fn *ssa.Function, an *fnAnalysis, b *ssa.BasicBlock, start int, s *State, fc *frameCells, in map[*ssa.BasicBlock][]*State, exits *[]*Exit) {
	for idx := start; idx < len(b.Instrs); idx++ {
		ins := b.Instrs[idx]
		if s.dead {
			return
		}
		if sas := v.siteAssertsBefore(fn, ins); len(sas) > 0 {
			v.runSiteAsserts(fn, s, fc, sas, ins.Pos(), b)
		}
		switch t := ins.(type) {
		case *ssa.If:
			c := v.reg(s, t.Cond).term()
			s1 := s.clone()
			s1.assume(c)
			s2 := s
			s2.assume(Not(c))
			// reachability (cover) probe: the body of a loop of the function under verification must be reachable from
			// its head under the invariants -- otherwise everything proved about the body is vacuous
			if li := an.loops[b]; li != nil && fn == v.top && s.frame != nil && s.frame.fn == v.top {
				what := fmt.Sprintf("loop %d body", li.ordinal)
				if li.body[b.Succs[0]] && b.Succs[0] != b {
					v.cover(s1, what)
				} else if li.body[b.Succs[1]] && b.Succs[1] != b {
					v.cover(s2, what)
				}
			}
			v.flow(fn, an, b, b.Succs[0], s1, fc, in)
			v.flow(fn, an, b, b.Succs[1], s2, fc, in)
			return
		case *ssa.Jump:
			v.flow(fn, an, b, b.Succs[0], s, fc, in)
			return
		case *ssa.Return:
			var rs []*Value
			for _, r := range t.Results {
				rs = append(rs, v.reg(s, r))
			}
			*exits = append(*exits, &Exit{st: s, results: rs})
			return
		case *ssa.Panic:
			if !v.panicAllowed(fn, s) {
				v.addOb(s, "panic", t.Pos(), False, "", nil)
			}
			s.dead = true
			return
		default:
			saved := v.forks
			v.forks = nil
			v.execInstr(fn, s, ins, fc)
			forks := v.forks
			v.forks = saved
			// a call that returned several unmergeable states: continue the rest of the block for each of them
			for _, f := range forks {
				if f.st.dead {
					continue
				}
				if _, isRD := ins.(*ssa.RunDefers); isRD {
					v.execFrom(fn, an, b, idx, f.st, fc, in, exits)
					continue
				}
				if val, ok := ins.(ssa.Value); ok && f.val != nil {
					v.set(f.st, val, f.val)
				}
				v.execFrom(fn, an, b, idx+1, f.st, fc, in, exits)
			}
		}
	}
}

func (v *Verifier) panicAllowed(fn *ssa.Function, s *State) bool { return false }

func (v *Verifier) flow(fn *ssa.Function, an *fnAnalysis, from, to *ssa.BasicBlock, s *State, fc *frameCells, in map[*ssa.BasicBlock][]*State) {
	if s.dead || And(s.pc...).isFalse() {
		return
	}
	if an.backEdge[[2]int{from.Index, to.Index}] {
		v.backEdge(fn, an, an.loops[to], s, fc)
		return
	}
	if len(to.Instrs) > 0 {
		if _, isPhi := to.Instrs[0].(*ssa.Phi); isPhi {
			s.ghost[fmt.Sprintf("$pred!%p!%d", fn, to.Index)] = scalar(types.Typ[types.Int], Int(int64(from.Index)))
		}
	}
	in[to] = append(in[to], s)
}

func (v *Verifier) set(s *State, x ssa.Value, val *Value) {
	s.frame.regs[x] = val
}

// nilCheck emits a nil-dereference obligation for a pointer term.
func (v *Verifier) nilCheck(s *State, p *Term, pos token.Pos) {
	if p.isInt() && p.ival.Sign() != 0 {
		return
	}
	v.addOb(s, "nil", pos, Neq(p, Int(0)), "", nil)
}

func (v *Verifier) execInstr(fn *ssa.Function, s *State, ins ssa.Instruction, fc *frameCells) {
	switch t := ins.(type) {
	case *ssa.DebugRef:
		return
	case *ssa.Alloc:
		et := t.Type().(*types.Pointer).Elem()
		if !t.Heap {
			cell := fc.m[t]
			if cell == nil {
				cell = v.newCell(s.frame, t)
				fc.m[t] = cell
			}
			s.cells[cell] = zeroValue(et)
			v.set(s, t, &Value{T: t.Type(), L: []*Term{nil}, LV: &LValue{kind: lvCell, cell: cell, t: et, rootT: et}})
			return
		}
		v.set(s, t, v.heapAlloc(s, et, t.Comment))
	case *ssa.Store:
		if fv, ok := t.Addr.(*ssa.FreeVar); ok {
			v.concurrentWriteVar(s, fv, t.Pos())
		}
		addr := v.reg(s, t.Addr)
		val := v.reg(s, t.Val)
		v.storeThrough(s, addr, val, t.Pos())
	case *ssa.UnOp:
		v.execUnOp(s, t)
	case *ssa.BinOp:
		v.execBinOp(s, t)
	case *ssa.FieldAddr:
		v.execFieldAddr(s, t)
	case *ssa.Field:
		x := v.reg(s, t.X)
		st := under(t.X.Type()).(*types.Struct)
		lo, hi := fieldRange(st, t.Field)
		v.set(s, t, x.sub(lo, hi, t.Type()))
	case *ssa.IndexAddr:
		v.execIndexAddr(s, t)
	case *ssa.Index:
		x := v.reg(s, t.X)
		idx := v.reg(s, t.Index).term()
		switch ut := under(t.X.Type()).(type) {
		case *types.Array:
			v.addOb(s, "idx", t.Pos(), And(Le(Int(0), idx), Lt(idx, Int(ut.Len()))), "", nil)
			n := &Value{T: t.Type(), L: make([]*Term, len(x.L))}
			for i, l := range x.L {
				n.L[i] = Select(l, idx)
			}
			valueFacts(n)
			v.set(s, t, n)
		default:
			if isString(t.X.Type()) {
				v.addOb(s, "idx", t.Pos(), And(Le(Int(0), idx), Lt(idx, App("slen", SInt, x.term()))), "", nil)
				r := App("str.at", SInt, x.term(), idx)
				addFact(r, And(Le(Int(0), r), Le(r, Int(255))))
				v.set(s, t, scalar(t.Type(), r))
			} else {
				v.abort("Index on %s", t.X.Type())
			}
		}
	case *ssa.Slice:
		v.execSlice(s, t)
	case *ssa.MakeSlice:
		ln := v.reg(s, t.Len).term()
		cp := v.reg(s, t.Cap).term()
		v.addOb(s, "make", t.Pos(), And(Le(Int(0), ln), Le(ln, cp), Le(cp, maxLen)), "", nil)
		arr := s.alloc("mk", 1)
		et := under(t.Type()).(*types.Slice).Elem()
		// zero-initialised backing array
		for _, hk := range heapKeys(elemBase(et), et, SInt, SInt) {
			h := s.heapArr(hk.name, hk.sort)
			_, inner, _ := arrayParts(hk.sort)
			z := zeroLeaf(LeafSpec{Sort: inner})
			s.heap[hk.name] = Store(h, arr, z)
		}
		v.set(s, t, sliceValue(t.Type(), arr, Int(0), ln, cp))
	case *ssa.MakeMap:
		r := s.alloc("map", 1)
		v.initMap(s, r, t.Type())
		v.set(s, t, scalar(t.Type(), r))
	case *ssa.MakeChan:
		r := s.alloc("chan", 1)
		s.heap["chan#closed"] = Store(s.heapArr("chan#closed", ArrSort(SInt, SBool)), r, False)
		s.heap["chan#running"] = Store(s.heapArr("chan#running", runningSort), r, False)
		// buffer size (cap(ch) in specifications)
		s.heap["chan#cap"] = Store(s.heapArr("chan#cap", ArrSort(SInt, SInt)), r, v.reg(s, t.Size).term())
		v.set(s, t, scalar(t.Type(), r))
	case *ssa.MakeInterface:
		v.set(s, t, v.makeIface(s, v.reg(s, t.X), t.X.Type(), t.Type()))
	case *ssa.MakeClosure:
		var binds []*Value
		for _, b := range t.Bindings {
			binds = append(binds, v.reg(s, b))
		}
		id := Fresh("clo!"+funcRef(t.Fn.(*ssa.Function)), SInt)
		s.assume(Gt(id, Int(0)))
		v.set(s, t, &Value{T: t.Type(), L: []*Term{id}, Clo: &Closure{Fn: t.Fn.(*ssa.Function), Binds: binds}})
		v.checkCaptures(s, t, binds)
	case *ssa.ChangeType:
		x := v.reg(s, t.X)
		v.set(s, t, &Value{T: t.Type(), L: x.L, LV: x.LV, Clo: x.Clo})
	case *ssa.ChangeInterface:
		x := v.reg(s, t.X)
		v.set(s, t, &Value{T: t.Type(), L: x.L})
	case *ssa.Convert:
		v.execConvert(s, t)
	case *ssa.SliceToArrayPointer:
		x := v.reg(s, t.X)
		n := under(t.Type().(*types.Pointer).Elem()).(*types.Array).Len()
		v.addOb(s, "slice", t.Pos(), Ge(x.sLen(), Int(n)), "", nil)
		s.note("SliceToArrayPointer approximated")
		v.set(s, t, freshValue("s2ap", t.Type()))
	case *ssa.TypeAssert:
		v.execTypeAssert(s, t)
	case *ssa.Extract:
		tup := v.reg(s, t.Tuple)
		tt := t.Tuple.Type().(*types.Tuple)
		lo, hi := tupleRange(tt, t.Index)
		nv := tup.sub(lo, hi, t.Type())
		if tup.Clo != nil {
			nv.Clo = nil
		}
		v.set(s, t, nv)
	case *ssa.Phi:
		// NaiveForm: only for && / || ; pick by predecessor -- states were forked per edge, but after merging
		// we no longer know the edge. We track the incoming edge through a per-state register.
		v.execPhi(s, t)
	case *ssa.Lookup:
		v.execLookup(s, t)
	case *ssa.MapUpdate:
		v.concurrentWrite(s, t.Map, t.Pos())
		m := v.reg(s, t.Map)
		k := v.reg(s, t.Key)
		val := v.reg(s, t.Value)
		v.addOb(s, "nilmap", t.Pos(), Neq(m.term(), Int(0)), "", nil)
		v.mapStore(s, m, k, val)
	case *ssa.Range:
		x := v.reg(s, t.X)
		it := &Value{T: t.Type(), L: []*Term{Fresh("iter", SInt)}}
		it.LV = nil
		s.ghost["$range!"+it.L[0].name] = x
		v.set(s, t, it)
	case *ssa.Next:
		v.execNext(s, t)
	case *ssa.Call:
		res := v.execCall(s, t, t.Common(), t.Pos())
		if res != nil {
			v.set(s, t, res)
		}
	case *ssa.Defer:
		var args []*Value
		c := t.Common()
		var fv *Value
		if c.IsInvoke() {
			fv = v.reg(s, c.Value)
		} else if _, isB := c.Value.(*ssa.Builtin); !isB {
			fv = v.reg(s, c.Value)
		}
		for _, a := range c.Args {
			args = append(args, v.reg(s, a))
		}
		s.frame.defers = append(s.frame.defers, deferred{call: t, args: args, fnVal: fv})
	case *ssa.RunDefers:
		for len(s.frame.defers) > 0 {
			ds := s.frame.defers
			d := ds[len(ds)-1]
			s.frame.defers = append([]deferred(nil), ds[:len(ds)-1]...)
			v.callCommon(s, d.call.Common(), d.fnVal, d.args, d.call.Pos(), nil)
			if s.dead {
				return
			}
		}
	case *ssa.Go:
		v.execGo(s, t)
	case *ssa.Send:
		// only the number of sends per channel is recorded (sent(ch) in specifications); values and blocking are not modelled
		s.note("channel send: only counted")
		ch := v.reg(s, t.Chan)
		h := s.heapArr("chan#sent", ArrSort(SInt, SInt))
		s.heap["chan#sent"] = Store(h, ch.term(), Add(Select(h, ch.term()), Int(1)))
	case *ssa.Select:
		v.execSelect(s, t)
	default:
		v.abort("unsupported instruction %T: %s", ins, ins)
	}
}

type bigInt = bigIntT

func (v *Verifier) heapAlloc(s *State, et types.Type, hint string) *Value {
	pt := types.NewPointer(et)
	switch u := under(et).(type) {
	case *types.Struct:
		r := s.alloc(hint, deepSize(et))
		s.storeStruct(r, et, zeroValue(et))
		v.zeroGhost(s, r, et)
		return scalar(pt, r)
	case *types.Array:
		r := s.alloc(hint, 1)
		elem := u.Elem()
		for _, hk := range heapKeys(elemBase(elem), elem, SInt, SInt) {
			h := s.heapArr(hk.name, hk.sort)
			_, inner, _ := arrayParts(hk.sort)
			s.heap[hk.name] = Store(h, r, zeroLeaf(LeafSpec{Sort: inner}))
		}
		return scalar(pt, r)
	default:
		r := s.alloc(hint, 1)
		s.storePtr(r, et, zeroValue(et))
		return scalar(pt, r)
	}
}

// pointer value -> lvalue for load/store
func (v *Verifier) lvOf(s *State, p *Value, pos token.Pos) *LValue {
	if p.LV != nil {
		return p.LV
	}
	et := under(p.T).(*types.Pointer).Elem()
	v.nilCheck(s, p.term(), pos)
	return &LValue{kind: lvPtr, obj: p.term(), t: et, rootT: et}
}

func (v *Verifier) loadThrough(s *State, p *Value, pos token.Pos) *Value {
	lv := v.lvOf(s, p, pos)
	v.checkGuard(s, lv, false, pos)
	val := s.load(lv)
	if lv.kind != lvCell {
		s.assumeAllocated(val)
	}
	return val
}

func (v *Verifier) storeThrough(s *State, p *Value, val *Value, pos token.Pos) {
	lv := v.lvOf(s, p, pos)
	v.checkGuard(s, lv, true, pos)
	if len(val.L) != len(leafSpecs(lv.t)) {
		v.abort("store leaf mismatch: %s <- %s", lv.t, val.T)
	}
	var vol []*VolatileSpec
	var pre *State
	if lv.kind == lvField && len(lv.path) == 0 {
		if vol = v.volatileSpecs(lv.st, lv.field); len(vol) > 0 {
			pre = s.clone()
		}
	}
	s.store(lv, val)
	for _, vs := range vol {
		// a module function writing a volatile field keeps the relation foreign code is assumed to keep
		self := scalar(types.NewPointer(lv.st), lv.obj)
		ev := &Eval{v: v, st: s, old: pre, env: map[string]*Value{"self": self}, mode: evalCall, pkg: fnPkg(v.top)}
		v.addOb(s, "volatile", pos, ev.boolExpr(vs.Rel), "volatile "+typeName(lv.st)+"."+vs.Field+": "+vs.Text, vs.Props)
	}
}

// cover records whether the point `what` is reachable: the path condition is checked for satisfiability; only a
// definite unsat on every path that reaches the probe counts as unreachable.
func (v *Verifier) cover(s *State, what string) {
	if v.suppressObs > 0 {
		return
	}
	if v.coverSeen == nil {
		v.coverSeen = map[string]bool{}
	}
	if reached, ok := v.coverSeen[what]; ok && reached {
		return
	}
	if _, ok := v.coverSeen[what]; !ok {
		v.coverOrder = append(v.coverOrder, what)
		v.coverSeen[what] = false
	}
	v.vacProbes++
	res := Solve(Script(append([]*Term{}, s.pc...), false), 5, false, false)
	if os.Getenv("GOVC_DEBUG") == "cover" {
		fmt.Fprintf(os.Stderr, "DEBUG cover %s %s: %s (pc %d conjuncts)\n", funcRef(v.top), what, res.Status, len(s.pc))
		if res.Status == "unsat" {
			// shrink: find the shortest prefix of the path condition that is already contradictory
			lo, hi := 0, len(s.pc)
			for lo < hi {
				mid := (lo + hi) / 2
				if Solve(Script(append([]*Term{}, s.pc[:mid]...), false), 5, false, false).Status == "unsat" {
					hi = mid
				} else {
					lo = mid + 1
				}
			}
			if lo > 0 && lo <= len(s.pc) {
				fmt.Fprintf(os.Stderr, "   contradictory after conjunct %d: %s\n", lo, trunc(s.pc[lo-1].String(), 600))
			}
		}
	}
	if res.Status != "unsat" {
		v.coverSeen[what] = true
		v.vacOK++
	}
}

// volatileSpecs returns the volatile declarations for field i of struct type st.
func (v *Verifier) volatileSpecs(st types.Type, i int) []*VolatileSpec {
	tc := v.contracts.types[typeName(st)]
	if tc == nil || len(tc.Volatile) == 0 {
		return nil
	}
	u, ok := under(st).(*types.Struct)
	if !ok {
		return nil
	}
	var out []*VolatileSpec
	for _, vs := range tc.Volatile {
		if vs.Field == u.Field(i).Name() && (len(vs.Props) == 0 || hasProp(vs.Props, curProp)) {
			out = append(out, vs)
		}
	}
	return out
}

// havocVolatile: a call that leaves the verified code may run methods of module objects it holds behind interfaces;
// declared volatile fields change as their relation allows, on every object.
func (v *Verifier) havocVolatile(s *State) {
	for _, tk := range sortedKeys(v.contracts.types) {
		tc := v.contracts.types[tk]
		for _, vs := range tc.Volatile {
			if len(vs.Props) > 0 && !hasProp(vs.Props, curProp) {
				continue
			}
			nt := v.lookupNamedType(tc.Key)
			if nt == nil {
				continue
			}
			u, ok := under(nt).(*types.Struct)
			if !ok {
				continue
			}
			for i := 0; i < u.NumFields(); i++ {
				if u.Field(i).Name() != vs.Field {
					continue
				}
				pre := s.clone()
				var nh *Term
				for _, hk := range heapKeys(structFieldBase(nt, i), u.Field(i).Type(), SInt) {
					nh = s.freshHeap("Hv!", hk.name, hk.sort)
				}
				r := BoundVar("r!vol", SInt)
				self := scalar(types.NewPointer(nt), r)
				ev := &Eval{v: v, st: s, old: pre, env: map[string]*Value{"self": self}, mode: evalCall, pkg: fnPkg(v.top)}
				rel := ev.boolExpr(vs.Rel)
				// a fact about the fresh array only (the relation is reflexive: the old contents satisfy it), stated
				// once and for all rather than under the path condition
				addFact(nh, Forall([]*Term{r}, rel, inferPatterns([]*Term{r}, rel)...))
				v.assumptions["volatile "+tc.Key+"."+vs.Field+": foreign code changes it only as declared ("+vs.Text+")"] = true
			}
		}
	}
}

func (v *Verifier) execUnOp(s *State, t *ssa.UnOp) {
	x := v.reg(s, t.X)
	switch t.Op {
	case token.MUL:
		val := v.loadThrough(s, x, t.Pos())
		nv := &Value{T: t.Type(), L: val.L, LV: val.LV, Clo: val.Clo}
		if g, ok := t.X.(*ssa.Global); ok {
			nv.Orig = "global:" + shortPkg(g.Pkg.Pkg.Path()) + "." + g.Name()
		}
		if x.LV != nil && x.LV.kind == lvField && len(x.LV.path) == 0 {
			if _, isFn := under(t.Type()).(*types.Signature); isFn {
				u := under(x.LV.st).(*types.Struct)
				nv.Orig = "field:" + typeName(x.LV.st) + "." + u.Field(x.LV.field).Name()
				nv.OrigObj = x.LV.obj
			}
		}
		v.set(s, t, nv)
	case token.NOT:
		v.set(s, t, scalar(t.Type(), Not(x.term())))
	case token.SUB:
		if isFloat(t.Type()) {
			v.set(s, t, scalar(t.Type(), App("fneg", SInt, x.term())))
			return
		}
		v.set(s, t, scalar(t.Type(), wrapInt(Neg(x.term()), t.Type(), true)))
	case token.XOR:
		// ^x == -x-1 (signed) ; for unsigned max - x
		min, max := intRange(t.Type())
		if min != nil && min.Sign() == 0 {
			v.set(s, t, scalar(t.Type(), Sub(IntBig(max), x.term())))
		} else {
			v.set(s, t, scalar(t.Type(), Sub(Neg(x.term()), Int(1))))
		}
	case token.ARROW:
		v.execRecv(s, t, x)
	default:
		v.abort("unop %s", t.Op)
	}
}

func (v *Verifier) execBinOp(s *State, t *ssa.BinOp) {
	x := v.reg(s, t.X)
	y := v.reg(s, t.Y)
	xt := t.X.Type()
	switch t.Op {
	case token.EQL, token.NEQ:
		var eq *Term
		if isIface(xt) {
			// interface equality: tags and data equal (nil iff tag==0)
			eq = And(Eq(x.L[0], y.L[0]), Or(Eq(x.L[0], Int(0)), Eq(x.L[1], y.L[1])))
		} else if x.LV != nil || y.LV != nil {
			// pointer compare with Go-side addresses
			if x.LV != nil && y.LV != nil {
				eq = Bool(lvEqual(x.LV, y.LV))
				if !lvEqual(x.LV, y.LV) {
					s.note("pointer comparison of distinct lvalues approximated as unequal")
				}
			} else {
				other := x
				if x.LV != nil {
					other = y
				}
				if other.L[0] != nil && other.L[0].isInt() && other.L[0].ival.Sign() == 0 {
					eq = False
				} else if x.L[0] != nil && y.L[0] != nil {
					eq = Eq(x.L[0], y.L[0])
				} else {
					eq = Fresh("ptrcmp", SBool)
					s.note("pointer comparison approximated")
				}
			}
		} else if isFloat(xt) {
			eq = Eq(x.term(), y.term())
		} else {
			eq = valuesEq(x, y)
		}
		if t.Op == token.NEQ {
			eq = Not(eq)
		}
		v.set(s, t, scalar(t.Type(), eq))
		return
	}
	if isString(xt) {
		switch t.Op {
		case token.ADD:
			r := App("str.cat", SStr, x.term(), y.term())
			addFact(r, Eq(App("slen", SInt, r), Add(App("slen", SInt, x.term()), App("slen", SInt, y.term()))))
			v.set(s, t, scalar(t.Type(), r))
		case token.LSS, token.LEQ, token.GTR, token.GEQ:
			lt := App("str.lt", SBool, x.term(), y.term())
			gt := App("str.lt", SBool, y.term(), x.term())
			var r *Term
			switch t.Op {
			case token.LSS:
				r = lt
			case token.GTR:
				r = gt
			case token.LEQ:
				r = Not(gt)
			default:
				r = Not(lt)
			}
			v.set(s, t, scalar(t.Type(), r))
		default:
			v.abort("string binop %s", t.Op)
		}
		return
	}
	if isFloat(xt) {
		switch t.Op {
		case token.LSS, token.LEQ, token.GTR, token.GEQ:
			v.set(s, t, scalar(t.Type(), Fresh("fcmp", SBool)))
		default:
			v.set(s, t, scalar(t.Type(), Fresh("fop", SInt)))
		}
		s.note("floating point not modelled")
		return
	}
	if isBoolean(xt) {
		switch t.Op {
		case token.AND:
			v.set(s, t, scalar(t.Type(), And(x.term(), y.term())))
		case token.OR:
			v.set(s, t, scalar(t.Type(), Or(x.term(), y.term())))
		default:
			v.abort("bool binop %s", t.Op)
		}
		return
	}
	a, b := x.term(), y.term()
	rt := t.Type()
	switch t.Op {
	case token.ADD:
		v.set(s, t, scalar(rt, wrapInt(Add(a, b), rt, true)))
	case token.SUB:
		v.set(s, t, scalar(rt, wrapInt(Sub(a, b), rt, true)))
	case token.MUL:
		v.set(s, t, scalar(rt, wrapInt(Mul(a, b), rt, false)))
	case token.QUO:
		v.addOb(s, "div", t.Pos(), Neq(b, Int(0)), "", nil)
		v.set(s, t, scalar(rt, wrapInt(TDiv(a, b), rt, true)))
	case token.REM:
		v.addOb(s, "div", t.Pos(), Neq(b, Int(0)), "", nil)
		v.set(s, t, scalar(rt, TMod(a, b)))
	case token.LSS:
		v.set(s, t, scalar(rt, Lt(a, b)))
	case token.LEQ:
		v.set(s, t, scalar(rt, Le(a, b)))
	case token.GTR:
		v.set(s, t, scalar(rt, Gt(a, b)))
	case token.GEQ:
		v.set(s, t, scalar(rt, Ge(a, b)))
	case token.SHL:
		if b.isInt() && b.ival.IsInt64() && b.ival.Int64() >= 0 && b.ival.Int64() < 64 {
			v.set(s, t, scalar(rt, wrapInt(Mul(a, Pow2(uint(b.ival.Int64()))), rt, false)))
		} else {
			v.addOb(s, "shift", t.Pos(), Ge(b, Int(0)), "", nil)
			r := App("shl", SInt, a, b)
			v.set(s, t, scalar(rt, r))
			addFact(r, inRange(r, rt))
		}
	case token.SHR:
		if b.isInt() && b.ival.IsInt64() && b.ival.Int64() >= 0 && b.ival.Int64() < 64 {
			v.set(s, t, scalar(rt, EDiv(a, Pow2(uint(b.ival.Int64())))))
		} else {
			v.addOb(s, "shift", t.Pos(), Ge(b, Int(0)), "", nil)
			r := App("shr", SInt, a, b)
			v.set(s, t, scalar(rt, r))
			addFact(r, inRange(r, rt))
		}
	case token.AND, token.OR, token.XOR, token.AND_NOT:
		r := v.bitop(t.Op, a, b, rt)
		v.set(s, t, scalar(rt, r))
	default:
		v.abort("binop %s", t.Op)
	}
}

// bitop models bitwise operators on non-negative operands exactly when one operand is a constant (bit extraction by
// div/mod), and x|y exactly when x is a multiple of 2^32 and y < 2^32; otherwise uninterpreted with range facts.
func (v *Verifier) bitop(op token.Token, a, b *Term, rt types.Type) *Term {
	return bitopTerm(op, a, b, rt)
}

// andConst: x & c for a non-negative constant c and non-negative x.
func andConst(x *Term, c *big.Int) *Term {
	if c.Sign() == 0 {
		return Int(0)
	}
	// contiguous low mask 2^k-1
	m := new(big.Int).Add(c, bigOne)
	if new(big.Int).And(m, c).Sign() == 0 {
		return EMod(x, IntBig(m))
	}
	// general mask: sum over maximal runs of set bits [lo,hi): ((x div 2^lo) mod 2^(hi-lo)) * 2^lo
	res := Int(0)
	n := c.BitLen()
	for lo := 0; lo < n; {
		if c.Bit(lo) == 0 {
			lo++
			continue
		}
		hi := lo
		for hi < n && c.Bit(hi) == 1 {
			hi++
		}
		part := EMod(EDiv(x, Pow2(uint(lo))), Pow2(uint(hi-lo)))
		res = Add(res, Mul(part, Pow2(uint(lo))))
		lo = hi
	}
	return res
}

func bitopTerm(op token.Token, a, b *Term, rt types.Type) *Term {
	min, _ := intRange(rt)
	unsigned := min == nil || min.Sign() == 0
	if a.isInt() && !b.isInt() && op != token.AND_NOT {
		a, b = b, a
	}
	if b.isInt() && b.ival.Sign() >= 0 && (unsigned || op == token.AND) {
		if a.isInt() && a.ival.Sign() >= 0 {
			switch op {
			case token.AND:
				return IntBig(new(big.Int).And(a.ival, b.ival))
			case token.OR:
				return IntBig(new(big.Int).Or(a.ival, b.ival))
			case token.XOR:
				return IntBig(new(big.Int).Xor(a.ival, b.ival))
			case token.AND_NOT:
				return IntBig(new(big.Int).AndNot(a.ival, b.ival))
			}
		}
		if unsigned {
			and := andConst(a, b.ival)
			switch op {
			case token.AND:
				return and
			case token.OR:
				return Sub(Add(a, b), and)
			case token.XOR:
				return Sub(Add(a, b), Mul(and, Int(2)))
			case token.AND_NOT:
				return Sub(a, and)
			}
		} else if op == token.AND {
			// two's complement: the low bits of a negative number are those of its residue
			m := new(big.Int).Add(b.ival, bigOne)
			if new(big.Int).And(m, b.ival).Sign() == 0 {
				return EMod(a, IntBig(m))
			}
		}
	}
	name := map[token.Token]string{token.AND: "bvand", token.OR: "bvor", token.XOR: "bvxor", token.AND_NOT: "bvandnot"}[op]
	r := App(name, SInt, a, b)
	if rt != nil {
		addFact(r, inRange(r, rt))
	}
	if op == token.AND && unsigned {
		addFact(r, And(Le(r, a), Le(r, b)))
	}
	if op == token.OR && unsigned {
		addFact(r, And(Ge(r, a), Ge(r, b)))
		// a is a multiple of 2^32 and b < 2^32 (or the other way round): a|b == a+b
		p32 := Pow2(32)
		addFact(r, Implies(And(Eq(EMod(a, p32), Int(0)), Le(Int(0), b), Lt(b, p32), Le(Int(0), a)), Eq(r, Add(a, b))))
		addFact(r, Implies(And(Eq(EMod(b, p32), Int(0)), Le(Int(0), a), Lt(a, p32), Le(Int(0), b)), Eq(r, Add(a, b))))
	}
	return r
}

func (v *Verifier) execFieldAddr(s *State, t *ssa.FieldAddr) {
	x := v.reg(s, t.X)
	stT := under(t.X.Type()).(*types.Pointer).Elem()
	st := under(stT).(*types.Struct)
	ft := st.Field(t.Field).Type()
	if x.LV != nil {
		lv := *x.LV
		lo, hi := fieldRange(st, t.Field)
		lv.path = append(append([]pathElem(nil), x.LV.path...), pathElem{lo: lo, hi: hi, t: ft})
		lv.t = ft
		v.set(s, t, &Value{T: t.Type(), L: []*Term{nil}, LV: &lv})
		return
	}
	r := x.term()
	v.nilCheck(s, r, t.Pos())
	addr := Add(r, Int(fieldOffset(st, t.Field)))
	v.set(s, t, &Value{T: t.Type(), L: []*Term{addr}, LV: &LValue{kind: lvField, obj: r, st: stT, field: t.Field, t: ft, rootT: ft}})
}

func (v *Verifier) execIndexAddr(s *State, t *ssa.IndexAddr) {
	x := v.reg(s, t.X)
	idx := v.reg(s, t.Index).term()
	switch ut := under(t.X.Type()).(type) {
	case *types.Slice:
		v.addOb(s, "idx", t.Pos(), And(Le(Int(0), idx), Lt(idx, x.sLen())), "", nil)
		et := ut.Elem()
		// slice-window seeding: for a sub-slice (off = base+lo) mention the element's index relative to the parent window,
		// so that quantified facts about the parent slice can be instantiated by E-matching
		if off := x.sOff(); off.op == "+" && len(off.args) == 2 {
			s.assume(Eq(Elt(off.args[0], Add(off.args[1], idx)), Elt(off, idx)))
		}
		v.set(s, t, &Value{T: t.Type(), L: []*Term{nil}, LV: &LValue{kind: lvElem, obj: x.sArr(), idx: Elt(x.sOff(), idx), t: et, rootT: et}})
	case *types.Pointer:
		at := under(ut.Elem()).(*types.Array)
		v.addOb(s, "idx", t.Pos(), And(Le(Int(0), idx), Lt(idx, Int(at.Len()))), "", nil)
		et := at.Elem()
		if x.LV != nil {
			lv := *x.LV
			lv.path = append(append([]pathElem(nil), x.LV.path...), pathElem{idx: idx, t: et})
			lv.t = et
			v.set(s, t, &Value{T: t.Type(), L: []*Term{nil}, LV: &lv})
			return
		}
		v.nilCheck(s, x.term(), t.Pos())
		v.set(s, t, &Value{T: t.Type(), L: []*Term{nil}, LV: &LValue{kind: lvElem, obj: x.term(), idx: idx, t: et, rootT: et}})
	default:
		v.abort("IndexAddr on %s", t.X.Type())
	}
}

func (v *Verifier) execSlice(s *State, t *ssa.Slice) {
	x := v.reg(s, t.X)
	var lo, hi, mx *Term
	if t.Low != nil {
		lo = v.reg(s, t.Low).term()
	} else {
		lo = Int(0)
	}
	switch ut := under(t.X.Type()).(type) {
	case *types.Slice:
		if t.High != nil {
			hi = v.reg(s, t.High).term()
		} else {
			hi = x.sLen()
		}
		if t.Max != nil {
			mx = v.reg(s, t.Max).term()
		} else {
			mx = x.sCap()
		}
		v.addOb(s, "slice", t.Pos(), And(Le(Int(0), lo), Le(lo, hi), Le(hi, mx), Le(mx, x.sCap())), "", nil)
		v.set(s, t, sliceValue(t.Type(), x.sArr(), Add(x.sOff(), lo), Sub(hi, lo), Sub(mx, lo)))
	case *types.Basic: // string
		sl := App("slen", SInt, x.term())
		if t.High != nil {
			hi = v.reg(s, t.High).term()
		} else {
			hi = sl
		}
		v.addOb(s, "slice", t.Pos(), And(Le(Int(0), lo), Le(lo, hi), Le(hi, sl)), "", nil)
		r := App("str.sub", SStr, x.term(), lo, hi)
		addFact(r, Eq(App("slen", SInt, r), Sub(hi, lo)))
		v.set(s, t, scalar(t.Type(), r))
	case *types.Pointer:
		at := under(ut.Elem()).(*types.Array)
		n := Int(at.Len())
		if t.High != nil {
			hi = v.reg(s, t.High).term()
		} else {
			hi = n
		}
		if t.Max != nil {
			mx = v.reg(s, t.Max).term()
		} else {
			mx = n
		}
		v.addOb(s, "slice", t.Pos(), And(Le(Int(0), lo), Le(lo, hi), Le(hi, mx), Le(mx, n)), "", nil)
		if x.LV != nil {
			// slicing an array that lives in a cell / struct field: materialise a fresh backing array holding a copy (aliasing lost)
			s.note("slice of non-heap array approximated by copy")
			arr := s.alloc("arrcopy", 1)
			cur := s.load(x.LV)
			et := at.Elem()
			for k, hk := range heapKeys(elemBase(et), et, SInt, SInt) {
				h := s.heapArr(hk.name, hk.sort)
				s.heap[hk.name] = Store(h, arr, cur.L[k])
			}
			v.set(s, t, sliceValue(t.Type(), arr, lo, Sub(hi, lo), Sub(mx, lo)))
			return
		}
		v.nilCheck(s, x.term(), t.Pos())
		v.set(s, t, sliceValue(t.Type(), x.term(), lo, Sub(hi, lo), Sub(mx, lo)))
	default:
		v.abort("Slice on %s", t.X.Type())
	}
}

func (v *Verifier) execConvert(s *State, t *ssa.Convert) {
	x := v.reg(s, t.X)
	from, to := t.X.Type(), t.Type()
	switch {
	case isInteger(from) && isInteger(to):
		v.set(s, t, scalar(to, wrapInt(x.term(), to, false)))
	case isInteger(from) && isFloat(to), isFloat(from) && isFloat(to):
		v.set(s, t, scalar(to, App("i2f", SInt, x.term())))
	case isFloat(from) && isInteger(to):
		r := App("f2i!"+typeName(to), SInt, x.term())
		addFact(r, inRange(r, to))
		v.set(s, t, scalar(to, r))
	case isString(to) && isSlice(from):
		// string(bytes): uninterpreted function of the byte contents and length
		et := under(from).(*types.Slice).Elem()
		hk := heapKeys(elemBase(et), et, SInt, SInt)[0]
		contents := Select(s.heapArr(hk.name, hk.sort), x.sArr())
		r := App("bytes2str", SStr, contents, x.sOff(), x.sLen())
		addFact(r, Eq(App("slen", SInt, r), x.sLen()))
		v.set(s, t, scalar(to, r))
	case isSlice(to) && isString(from):
		arr := s.alloc("str2bytes", 1)
		et := under(to).(*types.Slice).Elem()
		hk := heapKeys(elemBase(et), et, SInt, SInt)[0]
		h := s.heapArr(hk.name, hk.sort)
		cont := App("str2bytes", ArrSort(SInt, SInt), x.term())
		s.heap[hk.name] = Store(h, arr, cont)
		ln := App("slen", SInt, x.term())
		v.set(s, t, sliceValue(to, arr, Int(0), ln, ln))
	case isString(to) && isInteger(from):
		r := App("rune2str", SStr, x.term())
		v.set(s, t, scalar(to, r))
	case isString(to) && isString(from):
		v.set(s, t, scalar(to, x.term()))
	case isPointer(to) || isPointer(from):
		s.note("unsafe pointer conversion")
		v.set(s, t, freshValue("conv", to))
	default:
		if len(leafSpecs(from)) == len(leafSpecs(to)) {
			v.set(s, t, &Value{T: to, L: x.L})
			return
		}
		v.abort("convert %s -> %s", from, to)
	}
}

func (v *Verifier) makeIface(s *State, x *Value, from, to types.Type) *Value {
	if isIface(from) {
		return &Value{T: to, L: x.L}
	}
	tag := Int(typeID(from))
	var data *Term
	if len(x.L) == 1 && x.L[0] != nil && x.L[0].sort == SInt && (isPointer(from) || isMap(from)) {
		data = x.L[0]
	} else if x.LV != nil && x.L[0] == nil {
		data = Fresh("box!lv", SInt)
		s.note("interface boxing of a local address")
	} else {
		// box: fresh ref whose Box heap holds the value
		data = s.alloc("box", 1)
		for k, hk := range heapKeys("B:"+typeName(from), from, SInt) {
			s.heap[hk.name] = Store(s.heapArr(hk.name, hk.sort), data, x.L[k])
		}
	}
	return &Value{T: to, L: []*Term{tag, data}, Clo: x.Clo}
}

func (v *Verifier) unbox(s *State, iv *Value, to types.Type) *Value {
	if isPointer(to) || isMap(to) {
		return scalar(to, iv.L[1])
	}
	keys := heapKeys("B:"+typeName(to), to, SInt)
	nv := &Value{T: to, L: make([]*Term, len(keys))}
	for k, hk := range keys {
		nv.L[k] = Select(s.heapArr(hk.name, hk.sort), iv.L[1])
	}
	valueFacts(nv)
	return nv
}

func (v *Verifier) execTypeAssert(s *State, t *ssa.TypeAssert) {
	x := v.reg(s, t.X)
	var ok *Term
	var val *Value
	if isIface(t.AssertedType) {
		// interface-to-interface: succeeds iff dynamic type implements; unknown -> fresh bool, but nil fails
		okb := implementsTerm(x.L[0], t.AssertedType)
		ok = And(Neq(x.L[0], Int(0)), okb)
		if types.Identical(under(t.X.Type()), under(t.AssertedType)) {
			ok = Neq(x.L[0], Int(0))
		}
		val = &Value{T: t.AssertedType, L: x.L}
	} else {
		ok = Eq(x.L[0], Int(typeID(t.AssertedType)))
		val = v.unbox(s, x, t.AssertedType)
	}
	if t.CommaOk {
		zero := zeroValue(t.AssertedType)
		r := &Value{T: t.Type()}
		r.L = append(r.L, iteValue(ok, val, zero).L...)
		r.L = append(r.L, ok)
		v.set(s, t, r)
		return
	}
	v.addOb(s, "typeassert", t.Pos(), ok, "", nil)
	v.set(s, t, val)
}

func (v *Verifier) execPhi(s *State, t *ssa.Phi) {
	// find which predecessor we came from: recorded in ghost "$pred!<block>"
	key := fmt.Sprintf("$pred!%p!%d", t.Block().Parent(), t.Block().Index)
	pv := s.ghost[key]
	if pv == nil {
		v.abort("phi without predecessor info in %s", funcRef(t.Block().Parent()))
	}
	var res *Value
	for i := len(t.Edges) - 1; i >= 0; i-- {
		ev := v.regOrNil(s, t.Edges[i])
		if ev == nil {
			continue
		}
		if res == nil {
			res = ev
		} else {
			res = iteValue(Eq(pv.term(), Int(int64(t.Block().Preds[i].Index))), ev, res)
		}
	}
	if res == nil {
		v.abort("phi with no available edges")
	}
	v.set(s, t, &Value{T: t.Type(), L: res.L})
}

func (v *Verifier) regOrNil(s *State, x ssa.Value) (val *Value) {
	defer func() {
		if r := recover(); r != nil {
			if _, ok := r.(abortExec); ok {
				val = nil
				return
			}
			panic(r)
		}
	}()
	return v.reg(s, x)
}


// implementsTerm: does the dynamic type with this tag implement interface it? Decided statically for constant tags,
// otherwise an uninterpreted predicate of the tag (values of static type `it` satisfy it by typing).
func implementsTerm(tag *Term, it types.Type) *Term {
	iface, ok := under(it).(*types.Interface)
	if !ok {
		return False
	}
	if tag.isInt() {
		if ct, ok := typeIDTypes[tag.ival.Int64()]; ok {
			return Bool(types.Implements(ct, iface))
		}
		return False
	}
	if iface.NumMethods() == 0 {
		return True
	}
	return App("implements!"+typeName(it), SBool, tag)
}


// runGhostEntry executes the `ghostentry` assignments of fn's contract at the start of its body.
func (v *Verifier) runGhostEntry(fn *ssa.Function, st *State, args []*Value, fc *frameCells) {
	c := v.contracts.forFunc(fn)
	if c == nil || len(c.GhostEntry) == 0 {
		return
	}
	env := map[string]*Value{}
	for i, p := range fn.Params {
		if i < len(args) {
			env[p.Name()] = args[i]
		}
	}
	for i, fv := range fn.FreeVars {
		if val, ok := st.frame.regs[fv]; ok {
			et := fv.Type().(*types.Pointer).Elem()
			if val.LV != nil {
				env[fv.Name()] = st.load(val.LV)
			} else {
				env[fv.Name()] = st.loadPtr(val.term(), et)
			}
		}
		_ = i
	}
	for _, ga := range c.GhostEntry {
		ev := &Eval{v: v, st: st, old: st, env: env, mode: evalCall, fc: c, pkg: fnPkg(fn)}
		rhs := ev.eval(ga.RHS)
		ev.assignGhost(ga.LHS, rhs)
	}
}


// zeroGhost initialises the ghost state of a freshly allocated struct object: ghost fields are zero and every embedded
// sync.Once has not fired.
func (v *Verifier) zeroGhost(s *State, ref *Term, t types.Type) {
	u, ok := under(t).(*types.Struct)
	if !ok {
		return
	}
	if tc := v.contracts.types[typeName(t)]; tc != nil {
		for _, g := range tc.Ghost {
			ev := &Eval{v: v, st: s, pkg: typePkg(t)}
			gt := ev.resolveType(g.Typ)
			z := zeroValue(gt)
			for k, hk := range heapKeys("G:"+typeName(t)+"."+g.Name, gt, SInt) {
				s.heap[hk.name] = Store(s.heapArr(hk.name, hk.sort), ref, z.L[k])
			}
		}
	}
	if typeName(t) == "sync.Once" {
		h := s.heapArr("O:ptr", onceSort)
		s.heap["O:ptr"] = Store(h, ref, False)
		return
	}
	for i := 0; i < u.NumFields(); i++ {
		ft := u.Field(i).Type()
		if typeName(ft) == "sync.Once" {
			n := "O:" + typeName(t) + "." + u.Field(i).Name()
			s.heap[n] = Store(s.heapArr(n, onceSort), ref, False)
		} else if isStruct(ft) {
			v.zeroGhost(s, Add(ref, Int(fieldOffset(u, i))), ft)
		}
	}
}


// site assertions: computed once per function: instruction -> assertions to check before it.
// An `after "text"` assertion is attached to the instruction that follows the last instruction of the matching line
// within its block (or to the block terminator).
func (v *Verifier) siteAssertsBefore(fn *ssa.Function, ins ssa.Instruction) []*SiteAssert {
	m, ok := v.siteMap[fn]
	if !ok {
		m = map[ssa.Instruction][]*SiteAssert{}
		v.siteMap[fn] = m
		if c := v.contracts.forFunc(fn); c != nil {
			for _, sa := range c.SiteAsserts {
				placed := false
				doneLines := map[int]bool{}
				// `"text"#N`: only the N-th source line (in source order) of the function that contains the text
				onlyLine := 0
				if sa.Nth > 0 {
					var lines []int
					seenL := map[int]bool{}
					for _, b := range fn.Blocks {
						for _, in := range b.Instrs {
							if _, isDbg := in.(*ssa.DebugRef); isDbg || !in.Pos().IsValid() {
								continue
							}
							if _, txt := v.srcLine(in.Pos()); strings.Contains(txt, sa.Match) {
								if l := v.fset.Position(in.Pos()).Line; !seenL[l] {
									seenL[l] = true
									lines = append(lines, l)
								}
							}
						}
					}
					sort.Ints(lines)
					if sa.Nth <= len(lines) {
						onlyLine = lines[sa.Nth-1]
					} else {
						onlyLine = -1
					}
				}
				for _, b := range fn.Blocks {
					for i, in := range b.Instrs {
						if _, isDbg := in.(*ssa.DebugRef); isDbg || !in.Pos().IsValid() {
							continue
						}
						_, txt := v.srcLine(in.Pos())
						if !strings.Contains(txt, sa.Match) {
							continue
						}
						if onlyLine != 0 && v.fset.Position(in.Pos()).Line != onlyLine {
							continue
						}
						if doneLines[v.fset.Position(in.Pos()).Line] {
							continue
						}
						doneLines[v.fset.Position(in.Pos()).Line] = true
						if !sa.After {
							m[in] = append(m[in], sa)
							placed = true
							continue
						}
						// last instruction of this line in the block
						line := v.fset.Position(in.Pos()).Line
						j := i
						for k := i + 1; k < len(b.Instrs); k++ {
							if p := b.Instrs[k].Pos(); p.IsValid() {
								if v.fset.Position(p).Line == line {
									j = k
								} else if _, isDbg := b.Instrs[k].(*ssa.DebugRef); !isDbg {
									break
								}
							}
						}
						if j+1 < len(b.Instrs) {
							m[b.Instrs[j+1]] = append(m[b.Instrs[j+1]], sa)
						} else {
							m[b.Instrs[len(b.Instrs)-1]] = append(m[b.Instrs[len(b.Instrs)-1]], sa)
						}
						placed = true
					}
				}
				if !placed {
					// the program point the clause is attached to no longer exists: an assumption is simply not made;
					// an assertion is reported as failed at function entry (it can no longer be shown to hold)
					if !sa.Assume && len(fn.Blocks) > 0 && len(fn.Blocks[0].Instrs) > 0 {
						lost := &SiteAssert{Match: sa.Match, Expr: &Expr{Op: "false", Text: "false"}, Text: "program point \"" + sa.Match + "\" not found for: " + sa.Text, Props: sa.Props}
						first := fn.Blocks[0].Instrs[0]
						m[first] = append(m[first], lost)
					}
				}
			}
		}
	}
	return m[ins]
}

func (v *Verifier) runSiteAsserts(fn *ssa.Function, s *State, fc *frameCells, sas []*SiteAssert, pos token.Pos, blk *ssa.BasicBlock) {
	// innermost loop containing this block (for rangeidx)
	var inner *loopInfo
	if an := v.analyses[fn]; an != nil {
		for _, li := range an.loops {
			if li.body[blk] && (inner == nil || len(li.body) < len(inner.body)) {
				inner = li
			}
		}
	}
	for _, sa := range sas {
		ev := v.newEval(s, fn, fc, evalLoop)
		ev.loop = inner
		if sa.Assume {
			s.assume(ev.boolExpr(sa.Expr))
			v.assumptions["assumed at \""+sa.Match+"\" in "+funcRef(fn)+": "+sa.Text] = true
			continue
		}
		v.addOb(s, "assert", pos, ev.boolExpr(sa.Expr), "assert "+sa.Text, sa.Props)
	}
}


// concurrentWrite: a function declared `concurrent` (it may run in parallel with itself) must hold some lock whenever
// it writes a variable it captured by reference or a map held in such a variable.
func (v *Verifier) concurrentWrite(s *State, m ssa.Value, pos token.Pos) {
	u, ok := m.(*ssa.UnOp)
	if !ok {
		return
	}
	if fv, ok := u.X.(*ssa.FreeVar); ok {
		v.concurrentWriteVar(s, fv, pos)
	}
}

func (v *Verifier) concurrentWriteVar(s *State, fv *ssa.FreeVar, pos token.Pos) {
	if v.topC == nil || !v.topC.Concurrent || s.frame == nil || s.frame.fn != v.top {
		return
	}
	v.addOb(s, "lock", pos, Bool(len(s.held) > 0), "concurrent closure writes captured variable "+fv.Name()+" without holding a lock", v.topC.Props)
}


// checkCaptures: `captures e` in the contract of a closure is a fact about its captured variables that is assumed
// whenever the closure runs; it is proved here, where the closure is created, and the variables it mentions must
// never be assigned afterwards (neither by the creator nor by any closure sharing them).
func (v *Verifier) checkCaptures(s *State, mc *ssa.MakeClosure, binds []*Value) {
	cf := mc.Fn.(*ssa.Function)
	cc := v.contracts.forFunc(cf)
	if cc == nil || len(cc.Captures) == 0 || s.frame == nil || s.frame.fn != v.top || v.suppressObs > 0 {
		return
	}
	env := map[string]*Value{}
	for i, fv := range cf.FreeVars {
		if i >= len(binds) || binds[i] == nil {
			continue
		}
		pt, ok := fv.Type().(*types.Pointer)
		if !ok {
			continue
		}
		if binds[i].LV != nil {
			env[fv.Name()] = s.load(binds[i].LV)
		} else {
			env[fv.Name()] = s.loadPtr(binds[i].term(), pt.Elem())
		}
	}
	for _, c := range cc.Captures {
		ev := &Eval{v: v, st: s, old: s, env: env, mode: evalCall, pkg: fnPkg(cf)}
		v.addOb(s, "assert", mc.Pos(), ev.boolExpr(c.Expr), "captures (at the creation of "+funcRef(cf)+") "+c.Text, c.Props)
		// single assignment of the variables the clause mentions
		for i, fv := range cf.FreeVars {
			if !exprMentions(c.Expr, fv.Name()) || i >= len(mc.Bindings) {
				continue
			}
			stores := 0
			if a, ok := mc.Bindings[i].(*ssa.Alloc); ok {
				stores = countStores(a, map[ssa.Value]bool{})
			} else {
				stores = 2 // captured through an outer closure: not followed
			}
			v.addOb(s, "assert", mc.Pos(), Bool(stores <= 1), "captures (at the creation of "+funcRef(cf)+"): captured variable "+fv.Name()+" is assigned exactly once", c.Props)
		}
	}
}

func exprMentions(e *Expr, name string) bool {
	if e == nil {
		return false
	}
	if e.Op == "id" && e.Name == name {
		return true
	}
	for _, a := range e.Args {
		if exprMentions(a, name) {
			return true
		}
	}
	return false
}

// countStores counts the store instructions to a variable cell, following it into the closures that capture it.
func countStores(a ssa.Value, seen map[ssa.Value]bool) int {
	if seen[a] {
		return 0
	}
	seen[a] = true
	refs := a.Referrers()
	if refs == nil {
		return 2
	}
	n := 0
	for _, r := range *refs {
		switch t := r.(type) {
		case *ssa.Store:
			if t.Addr == a {
				n++
			} else {
				n += 2 // the address itself escapes
			}
		case *ssa.MakeClosure:
			fn := t.Fn.(*ssa.Function)
			for i, b := range t.Bindings {
				if b == a && i < len(fn.FreeVars) {
					n += countStores(fn.FreeVars[i], seen)
				}
			}
		case *ssa.UnOp, *ssa.DebugRef:
		default:
			n += 2
		}
	}
	return n
}


// loopMayModifyGhost: some call in the loop body can change ghost global g through a contract that names it (directly,
// or in a function of the module reached from the call).
func (v *Verifier) loopMayModifyGhost(li *loopInfo, g string) bool {
	for b := range li.body {
		for _, ins := range b.Instrs {
			ci, ok := ins.(ssa.CallInstruction)
			if !ok {
				continue
			}
			if _, isGo := ins.(*ssa.Go); isGo {
				continue // ghost state is this goroutine's own record
			}
			c := ci.Common()
			if _, isB := c.Value.(*ssa.Builtin); isB {
				continue
			}
			if c.IsInvoke() {
				key := typeName(c.Value.Type()) + "." + c.Method.Name()
				if fc := v.contracts.get(key); fc != nil && modifiesNamesGhost(fc, g) {
					return true
				}
				continue
			}
			callee := c.StaticCallee()
			if callee == nil {
				if mc, ok := c.Value.(*ssa.MakeClosure); ok {
					callee = mc.Fn.(*ssa.Function)
				}
			}
			if callee == nil {
				// unknown func value: closures of this function may be the target
				for _, anon := range v.top.AnonFuncs {
					if sum := v.summaryOf(anon); sum.ghosts[g] {
						return true
					}
				}
				continue
			}
			if fc := v.contracts.forFunc(callee); fc != nil && hasModifies(fc) {
				if modifiesNamesGhost(fc, g) {
					return true
				}
				continue
			}
			if callee.Blocks != nil {
				if sum := v.summaryOf(callee); sum.ghosts[g] {
					return true
				}
			}
			// closures handed to the callee may run
			for _, a := range c.Args {
				if mc, ok := a.(*ssa.MakeClosure); ok {
					if sum := v.summaryOf(mc.Fn.(*ssa.Function)); sum.ghosts[g] {
						return true
					}
				}
			}
		}
	}
	return false
}
