package main

// Write summaries of functions as seen from a call site.
//
// A callee without a `modifies` clause (or without a contract at all) is havoc'd by what its body can write. Writing
// to an object the callee itself allocates is invisible in the caller's pre-state, so the summary separates
//   - visible writes: through addresses derived from a parameter, a captured variable, a global or a pointer loaded
//     from memory (heap arrays are forgotten entirely), from
//   - fresh writes: through addresses derived from an allocation made during the call (the heap array keeps its value
//     on every object that existed at the call; only newer objects are unknown).
// The origin of an address is computed flow-insensitively over go/ssa (NaiveForm: local variables are cells).

import (
	"fmt"
	"go/types"
	"os"
	"strings"

	"golang.org/x/tools/go/ssa"
)

const (
	oBottom = iota // no pointer (nil, non-reference value)
	oFresh
	oParam
	oFree
	oUnknown
)

type origin struct {
	kind int
	idx  int
}

func joinOrigin(a, b origin) origin {
	if a.kind == oBottom {
		return b
	}
	if b.kind == oBottom {
		return a
	}
	if a == b {
		return a
	}
	return origin{kind: oUnknown}
}

type fnSummary struct {
	always   map[string]Sort
	byParam  []map[string]Sort
	byFree   []map[string]Sort
	full     map[string]Sort
	retFresh []bool
	done     bool
	// ghost globals the function may change (through contracts of what it calls, or its own ghostentry clauses);
	// anyGhost: it makes a call whose target is not known statically
	ghosts   map[string]bool
	anyGhost bool
}

func (s *fnSummary) visible(withFree bool) map[string]Sort {
	m := map[string]Sort{}
	for k, v := range s.always {
		m[k] = v
	}
	for _, p := range s.byParam {
		for k, v := range p {
			m[k] = v
		}
	}
	if withFree {
		for _, p := range s.byFree {
			for k, v := range p {
				m[k] = v
			}
		}
	}
	return m
}

type sumCtx struct {
	v        *Verifier
	fn       *ssa.Function
	sum      *fnSummary
	visiting map[*ssa.Function]bool
	cellMemo map[*ssa.Alloc]origin
	cellBusy map[*ssa.Alloc]bool
	valBusy  map[ssa.Value]bool
}

func (v *Verifier) summaryOf(fn *ssa.Function) *fnSummary {
	if v.sums == nil {
		v.sums = map[*ssa.Function]*fnSummary{}
	}
	if s, ok := v.sums[fn]; ok && s.done {
		return s
	}
	for iter := 0; iter < 8; iter++ {
		v.sumChanged = false
		v.computeSummary(fn, map[*ssa.Function]bool{})
		if !v.sumChanged {
			break
		}
	}
	// everything reached is at its fixpoint now
	var mark func(f *ssa.Function, seen map[*ssa.Function]bool)
	mark = func(f *ssa.Function, seen map[*ssa.Function]bool) {
		if seen[f] {
			return
		}
		seen[f] = true
		if s := v.sums[f]; s != nil {
			s.done = true
		}
	}
	for f := range v.sumReached {
		mark(f, map[*ssa.Function]bool{})
	}
	v.sumReached = nil
	return v.sums[fn]
}

func (v *Verifier) newSummary(fn *ssa.Function) *fnSummary {
	s := &fnSummary{always: map[string]Sort{}, full: map[string]Sort{}, ghosts: map[string]bool{}}
	s.byParam = make([]map[string]Sort, len(fn.Params))
	for i := range s.byParam {
		s.byParam[i] = map[string]Sort{}
	}
	s.byFree = make([]map[string]Sort, len(fn.FreeVars))
	for i := range s.byFree {
		s.byFree[i] = map[string]Sort{}
	}
	n := fn.Signature.Results().Len()
	s.retFresh = make([]bool, n)
	for i := range s.retFresh {
		s.retFresh[i] = true
	}
	return s
}

func (v *Verifier) computeSummary(fn *ssa.Function, visiting map[*ssa.Function]bool) *fnSummary {
	s := v.sums[fn]
	if s == nil {
		s = v.newSummary(fn)
		v.sums[fn] = s
	}
	if s.done || visiting[fn] {
		return s
	}
	visiting[fn] = true
	if v.sumReached == nil {
		v.sumReached = map[*ssa.Function]bool{}
	}
	v.sumReached[fn] = true
	if fn.Blocks == nil {
		for i := range s.retFresh {
			if s.retFresh[i] {
				s.retFresh[i] = false
				v.sumChanged = true
			}
		}
		return s
	}
	c := &sumCtx{v: v, fn: fn, sum: s, visiting: visiting, cellMemo: map[*ssa.Alloc]origin{}, cellBusy: map[*ssa.Alloc]bool{}, valBusy: map[ssa.Value]bool{}}
	if fc := v.contracts.forFuncIn(shortPkg(fnPkg(fn).Path()), fn); fc != nil {
		for _, ga := range fc.GhostEntry {
			c.ghostTargets([]*Expr{ga.LHS})
		}
	}
	for _, b := range fn.Blocks {
		for _, ins := range b.Instrs {
			c.instr(ins)
		}
	}
	return s
}

func (c *sumCtx) add(dst map[string]Sort, keys map[string]Sort) {
	for k, srt := range keys {
		if _, ok := dst[k]; !ok {
			dst[k] = srt
			c.v.sumChanged = true
		}
		if _, ok := c.sum.full[k]; !ok {
			c.sum.full[k] = srt
		}
	}
}

// record files a write of `keys` through an address of origin o.
func (c *sumCtx) record(o origin, keys map[string]Sort) {
	if len(keys) == 0 {
		return
	}
	switch o.kind {
	case oFresh, oBottom:
		for k, srt := range keys {
			if _, ok := c.sum.full[k]; !ok {
				c.sum.full[k] = srt
				c.v.sumChanged = true
			}
		}
	case oParam:
		c.add(c.sum.byParam[o.idx], keys)
	case oFree:
		c.add(c.sum.byFree[o.idx], keys)
	default:
		c.add(c.sum.always, keys)
	}
}

// ghostTargets records the ghost globals named by modifies targets (g, g[*], g.f ...).
func (c *sumCtx) ghostTargets(es []*Expr) {
	var root func(e *Expr) string
	root = func(e *Expr) string {
		switch e.Op {
		case "id":
			return e.Name
		case "star", "field", "index", "paren":
			if len(e.Args) > 0 {
				return root(e.Args[0])
			}
		}
		return ""
	}
	for _, e := range es {
		if e.Op == "id" && e.Name == "anything" {
			c.markAnyGhost()
			continue
		}
		if n := root(e); n != "" && c.v.contracts.isGhostGlobal(n) {
			if !c.sum.ghosts[n] {
				c.sum.ghosts[n] = true
				c.v.sumChanged = true
			}
		}
	}
}

// scope: the package whose assumed contracts apply inside the function being summarised.
func (c *sumCtx) scope() string {
	if p := fnPkg(c.fn); p != nil {
		return shortPkg(p.Path())
	}
	return curScope
}

func (c *sumCtx) markAnyGhost() {
	if !c.sum.anyGhost {
		c.sum.anyGhost = true
		c.v.sumChanged = true
	}
}

func (c *sumCtx) contractGhosts(fc *FuncContract) {
	for _, cl := range fc.Clauses {
		if cl.Kind == "modifies" && !cl.IsLoop {
			c.ghostTargets(cl.Exprs)
		}
	}
}

func (c *sumCtx) mergeGhosts(cs *fnSummary) {
	for g := range cs.ghosts {
		if !c.sum.ghosts[g] {
			c.sum.ghosts[g] = true
			c.v.sumChanged = true
		}
	}
	if cs.anyGhost {
		c.markAnyGhost()
	}
}

func (c *sumCtx) addrKeys(addr ssa.Value) map[string]Sort {
	m := map[string]Sort{}
	c.v.modAddr(addr, map[*ssa.Alloc]bool{}, m)
	return m
}

func (c *sumCtx) instr(ins ssa.Instruction) {
	v := c.v
	switch t := ins.(type) {
	case *ssa.Store:
		if a, ok := t.Addr.(*ssa.Alloc); ok && !a.Heap {
			return
		}
		if root := rootAlloc(t.Addr); root != nil && !root.Heap {
			return
		}
		if os.Getenv("GOVC_DEBUG") == "origin" {
			fmt.Fprintf(os.Stderr, "DEBUG origin %s: store %s origin=%v\n", funcRef(c.fn), t.String(), c.origin(t.Addr))
			if fa, ok := t.Addr.(*ssa.FieldAddr); ok {
				if u, ok := fa.X.(*ssa.UnOp); ok {
					if a, ok := u.X.(*ssa.Alloc); ok {
						fmt.Fprintf(os.Stderr, "   cell %s private=%v refs:", a.Name(), c.privateCell(a))
						for _, r := range *a.Referrers() {
							fmt.Fprintf(os.Stderr, " [%T %s]", r, r.String())
						}
						fmt.Fprintln(os.Stderr)
					}
				}
			}
		}
		c.record(c.origin(t.Addr), c.addrKeys(t.Addr))
	case *ssa.MapUpdate:
		m := map[string]Sort{}
		addMapKeys(m, t.Map.Type())
		c.record(c.origin(t.Map), m)
	case *ssa.Return:
		for i, r := range t.Results {
			if i < len(c.sum.retFresh) && c.sum.retFresh[i] && isRefLike(r.Type()) {
				if o := c.origin(r); o.kind != oFresh && o.kind != oBottom {
					c.sum.retFresh[i] = false
					v.sumChanged = true
				}
			}
		}
	case *ssa.MakeClosure:
		// the closure may run any time from now on (also during this call)
		cl := t.Fn.(*ssa.Function)
		cs := v.computeSummary(cl, c.visiting)
		c.record(origin{kind: oUnknown}, cs.always)
		for _, p := range cs.byParam {
			c.record(origin{kind: oUnknown}, p)
		}
		for k, p := range cs.byFree {
			if k < len(t.Bindings) {
				c.record(c.origin(t.Bindings[k]), p)
			}
		}
		c.record(origin{kind: oFresh}, cs.full)
		c.mergeGhosts(cs)
	case ssa.CallInstruction:
		c.call(t)
	}
}

func (c *sumCtx) call(t ssa.CallInstruction) {
	v := c.v
	cc := t.Common()
	if b, ok := cc.Value.(*ssa.Builtin); ok {
		switch b.Name() {
		case "append", "copy":
			if sl, ok := under(cc.Args[0].Type()).(*types.Slice); ok {
				m := map[string]Sort{}
				addKeys(m, elemBase(sl.Elem()), sl.Elem(), SInt, SInt)
				c.record(c.origin(cc.Args[0]), m)
			}
		case "delete", "clear":
			if isMap(cc.Args[0].Type()) {
				m := map[string]Sort{}
				addMapKeys(m, cc.Args[0].Type())
				c.record(c.origin(cc.Args[0]), m)
			} else if sl, ok := under(cc.Args[0].Type()).(*types.Slice); ok {
				m := map[string]Sort{}
				addKeys(m, elemBase(sl.Elem()), sl.Elem(), SInt, SInt)
				c.record(c.origin(cc.Args[0]), m)
			}
		case "close":
			c.record(origin{kind: oUnknown}, map[string]Sort{"chan#closed": ArrSort(SInt, SBool)})
		}
		return
	}
	var callee *ssa.Function
	var bindings []ssa.Value
	if !cc.IsInvoke() {
		callee = cc.StaticCallee()
		if mc, ok := cc.Value.(*ssa.MakeClosure); ok {
			callee = mc.Fn.(*ssa.Function)
			bindings = mc.Bindings
		}
	}
	if callee == nil {
		if cc.IsInvoke() {
			key := typeName(cc.Value.Type()) + "." + cc.Method.Name()
			if fc := v.contracts.getIn(c.scope(), key); fc != nil {
				c.contractGhosts(fc)
			}
		} else {
			// a func value: its contract, if any, is not known here
			c.markAnyGhost()
		}
		// dynamic call: closures created in this function are accounted for where they are made; pointer / slice
		// arguments may be written (module structs assumed untouched by dynamic callees, as in havocPointeesPolicy)
		for _, a := range cc.Args {
			m := map[string]Sort{}
			_, isLocal := a.(*ssa.Alloc)
			v.modArgPolicy(a.Type(), m, !(isLocal && !cc.IsInvoke()))
			c.record(c.origin(a), m)
		}
		return
	}
	name := callee.String()
	if _, ok := natives[name]; ok {
		if strings.Contains(name, "sync/atomic") || strings.Contains(name, "atomic.") {
			for _, a := range cc.Args {
				c.record(c.origin(a), c.addrKeys(a))
			}
		}
		return
	}
	fc := v.contracts.forFuncIn(c.scope(), callee)
	if fc != nil && hasModifies(fc) {
		c.contractGhosts(fc)
	}
	if fc != nil && fc.hasCallContract() && !hasModifies(fc) && (fc.Trusted || !isModulePkg(fnPkg(callee))) {
		// assumed contract on foreign code without a modifies clause: modifies nothing visible (as at the call site)
		return
	}
	if callee.Blocks != nil && isModulePkg(fnPkg(callee)) {
		cs := v.computeSummary(callee, c.visiting)
		c.record(origin{kind: oUnknown}, cs.always)
		for i, p := range cs.byParam {
			if i < len(cc.Args) {
				c.record(c.origin(cc.Args[i]), p)
			} else {
				c.record(origin{kind: oUnknown}, p)
			}
		}
		for k, p := range cs.byFree {
			if k < len(bindings) {
				c.record(c.origin(bindings[k]), p)
			} else {
				c.record(origin{kind: oUnknown}, p)
			}
		}
		c.record(origin{kind: oFresh}, cs.full)
		if fc == nil || !hasModifies(fc) {
			c.mergeGhosts(cs)
		}
		return
	}
	for _, a := range cc.Args {
		m := map[string]Sort{}
		v.modArg(a.Type(), m)
		c.record(c.origin(a), m)
	}
}

func isRefLike(t types.Type) bool {
	switch under(t).(type) {
	case *types.Pointer, *types.Slice, *types.Map, *types.Chan, *types.Interface, *types.Signature:
		return true
	case *types.Struct, *types.Array:
		return true
	}
	return false
}

// origin of the object a reference value points into.
func (c *sumCtx) origin(x ssa.Value) origin {
	if c.valBusy[x] {
		return origin{}
	}
	c.valBusy[x] = true
	defer delete(c.valBusy, x)
	switch a := x.(type) {
	case *ssa.Const:
		return origin{}
	case *ssa.Alloc:
		return origin{kind: oFresh}
	case *ssa.MakeSlice, *ssa.MakeMap, *ssa.MakeChan, *ssa.MakeClosure:
		return origin{kind: oFresh}
	case *ssa.Parameter:
		for i, p := range c.fn.Params {
			if p == a {
				return origin{kind: oParam, idx: i}
			}
		}
		return origin{kind: oUnknown}
	case *ssa.FreeVar:
		for i, p := range c.fn.FreeVars {
			if p == a {
				return origin{kind: oFree, idx: i}
			}
		}
		return origin{kind: oUnknown}
	case *ssa.FieldAddr:
		return c.origin(a.X)
	case *ssa.IndexAddr:
		return c.origin(a.X)
	case *ssa.Slice:
		if _, ok := under(a.X.Type()).(*types.Basic); ok {
			return origin{} // string
		}
		return c.origin(a.X)
	case *ssa.ChangeType:
		return c.origin(a.X)
	case *ssa.Field:
		return c.origin(a.X)
	case *ssa.Index:
		return c.origin(a.X)
	case *ssa.SliceToArrayPointer:
		return c.origin(a.X)
	case *ssa.ChangeInterface:
		return c.origin(a.X)
	case *ssa.MakeInterface:
		if !isRefLike(a.X.Type()) {
			return origin{}
		}
		return c.origin(a.X)
	case *ssa.TypeAssert:
		return c.origin(a.X)
	case *ssa.Phi:
		o := origin{}
		for _, e := range a.Edges {
			o = joinOrigin(o, c.origin(e))
		}
		return o
	case *ssa.Extract:
		switch tu := a.Tuple.(type) {
		case *ssa.TypeAssert:
			if a.Index == 0 {
				return c.origin(tu.X)
			}
			return origin{}
		case *ssa.Call:
			return c.callResult(tu, a.Index)
		}
		if !isRefLike(a.Type()) {
			return origin{}
		}
		return origin{kind: oUnknown}
	case *ssa.Call:
		return c.callResult(a, 0)
	case *ssa.UnOp:
		if !isRefLike(a.Type()) {
			return origin{}
		}
		if a.Op.String() == "*" {
			if root := rootAlloc(a.X); root != nil && c.privateCell(root) {
				return c.cellOrigin(root)
			}
		}
		return origin{kind: oUnknown}
	}
	if !isRefLike(x.Type()) {
		return origin{}
	}
	return origin{kind: oUnknown}
}

func (c *sumCtx) callResult(call *ssa.Call, idx int) origin {
	cc := call.Common()
	if b, ok := cc.Value.(*ssa.Builtin); ok {
		if b.Name() == "append" {
			o := c.origin(cc.Args[0])
			if o.kind == oBottom {
				return origin{kind: oFresh}
			}
			return o
		}
		return origin{}
	}
	if rt := call.Type(); rt != nil {
		if tu, ok := rt.(*types.Tuple); ok {
			if idx < tu.Len() && !isRefLike(tu.At(idx).Type()) {
				return origin{}
			}
		} else if !isRefLike(rt) {
			return origin{}
		}
	}
	if cc.IsInvoke() {
		return origin{kind: oUnknown}
	}
	callee := cc.StaticCallee()
	if mc, ok := cc.Value.(*ssa.MakeClosure); ok {
		callee = mc.Fn.(*ssa.Function)
	}
	if callee == nil {
		return origin{kind: oUnknown}
	}
	if os.Getenv("GOVC_DEBUG") == "origin" {
		fc := c.v.contracts.forFunc(callee)
		fmt.Fprintf(os.Stderr, "DEBUG callResult %s idx=%d fc=%v\n", funcRef(callee), idx, fc != nil)
		if fc != nil {
			for _, cl := range fc.Clauses {
				fmt.Fprintf(os.Stderr, "   clause %s %q expr=%v says=%v\n", cl.Kind, cl.Text, cl.Expr != nil, contractSaysFresh(fc, callee, idx))
			}
		}
	}
	if fc := c.v.contracts.forFuncIn(c.scope(), callee); fc != nil && contractSaysFresh(fc, callee, idx) {
		return origin{kind: oFresh}
	}
	if callee.Blocks == nil {
		return origin{kind: oUnknown}
	}
	if _, ok := natives[callee.String()]; ok {
		return origin{kind: oUnknown}
	}
	if !isModulePkg(fnPkg(callee)) {
		return origin{kind: oUnknown}
	}
	cs := c.v.computeSummary(callee, c.visiting)
	if idx < len(cs.retFresh) && cs.retFresh[idx] {
		return origin{kind: oFresh}
	}
	return origin{kind: oUnknown}
}

// privateCell: a local variable whose address is only used to load, store and address its parts in this function.
func (c *sumCtx) privateCell(a *ssa.Alloc) bool {
	var ok func(v ssa.Value) bool
	ok = func(v ssa.Value) bool {
		refs := v.Referrers()
		if refs == nil {
			return false
		}
		for _, r := range *refs {
			switch t := r.(type) {
			case *ssa.Store:
				if t.Val == v {
					return false
				}
			case *ssa.UnOp:
				if t.Op.String() != "*" {
					return false
				}
			case *ssa.DebugRef:
			case *ssa.FieldAddr:
				if !ok(t) {
					return false
				}
			case *ssa.IndexAddr:
				if !ok(t) {
					return false
				}
			default:
				return false
			}
		}
		return true
	}
	return ok(a)
}

// cellOrigin: join of the origins of every value stored into (a part of) the private local variable a.
func (c *sumCtx) cellOrigin(a *ssa.Alloc) origin {
	if o, ok := c.cellMemo[a]; ok {
		return o
	}
	if c.cellBusy[a] {
		return origin{}
	}
	c.cellBusy[a] = true
	o := origin{}
	var walk func(v ssa.Value)
	walk = func(v ssa.Value) {
		for _, r := range *v.Referrers() {
			switch t := r.(type) {
			case *ssa.Store:
				if t.Addr == v {
					if isRefLike(t.Val.Type()) {
						o = joinOrigin(o, c.origin(t.Val))
					}
				}
			case *ssa.FieldAddr:
				walk(t)
			case *ssa.IndexAddr:
				walk(t)
			}
		}
	}
	walk(a)
	delete(c.cellBusy, a)
	c.cellMemo[a] = o
	return o
}

// havocBySummary forgets what a call of fn may have written: heap arrays written through addresses the caller can
// see are unknown everywhere; arrays written only on objects fn allocates keep their value on every object that
// existed at the call.
func (v *Verifier) havocBySummary(s *State, fn *ssa.Function, prefix string, withFree bool) {
	sum := v.summaryOf(fn)
	vis := sum.visible(withFree)
	for _, g := range sortedKeys(s.ghost) {
		if strings.HasPrefix(g, "$") || v.noInterference > 0 {
			// (interference from other goroutines does not touch ghost state: ghost counters are this goroutine's own
			// accounting, shared ghost views are protected by monitors and re-read at Lock)
			continue
		}
		// ghost globals are package-scoped: a call whose target is unknown can change those of the callee's own
		// package; those of other packages only through contracts that name them (or closures handed over, which are
		// accounted for at the call site)
		if sum.ghosts[g] || (sum.anyGhost && v.contracts.ghostInScope(g, shortPkg(fnPkg(fn).Path())) && !v.contracts.ghostQuiet(g, shortPkg(fnPkg(fn).Path()))) {
			if gv := s.ghost[g]; isMap(gv.T) {
				// a ghost map keeps its identity; its contents are unknown
				ms := map[string]Sort{}
				addMapKeys(ms, gv.T)
				s.bumpWM()
				for _, k := range sortedKeys(ms) {
					h := s.heapArr(k, ms[k])
					_, inner, _ := arrayParts(ms[k])
					s.heap[k] = Store(h, gv.term(), Fresh("Hg!"+g, inner))
				}
				v.assumeMapValuesAllocated(s, gv)
				continue
			}
			s.ghost[g] = freshValue("Hg!"+g, s.ghost[g].T)
			s.assumeAllocated(s.ghost[g])
		}
	}
	if len(sum.full) == 0 {
		return
	}
	if os.Getenv("GOVC_DEBUG") == "summary" {
		fmt.Fprintf(os.Stderr, "DEBUG summary %s: always=%v params=%v free=%v full=%d ghosts=%v any=%v\n", funcRef(fn), sortedKeys(sum.always), sum.byParam, sum.byFree, len(sum.full), sum.ghosts, sum.anyGhost)
	}
	wmCall := s.wm
	s.bumpWM()
	for _, k := range sortedKeys(sum.full) {
		srt := sum.full[k]
		if _, ok := vis[k]; ok {
			s.freshHeap(prefix, k, srt)
			continue
		}
		is, _, ok := arrayParts(srt)
		if !ok || is != SInt {
			s.freshHeap(prefix, k, srt)
			continue
		}
		if prefix == "Hgo!" {
			// interference of another goroutine: what it writes only on objects of its own (allocated by it) cannot be
			// observed by this goroutine except through memory both can see, which is unknown anyway
			v.assumptions["objects a goroutine allocates for itself are not observed by its spawner (only memory visible to both is unknown at interference points)"] = true
			continue
		}
		old := s.heapArr(k, srt)
		nh := s.freshHeap(prefix+"n!", k, srt)
		r := BoundVar("r!new", SInt)
		addFact(nh, Forall([]*Term{r}, Implies(Le(r, wmCall), Eq(Select(nh, r), Select(old, r))), []*Term{Select(nh, r)}))
	}
}

// contractSaysFresh: an `ensures` clause of fc states fresh(<result idx>) (possibly under a condition).
func contractSaysFresh(fc *FuncContract, callee *ssa.Function, idx int) bool {
	names := map[string]bool{fmt.Sprintf("result%d", idx): true}
	rs := callee.Signature.Results()
	if rs.Len() == 1 {
		names["result"] = true
	}
	if idx < rs.Len() && rs.At(idx).Name() != "" {
		names[rs.At(idx).Name()] = true
	}
	if fc.ResultNames != nil && idx < len(fc.ResultNames) {
		names[fc.ResultNames[idx]] = true
	}
	var has func(e *Expr) bool
	has = func(e *Expr) bool {
		if e == nil {
			return false
		}
		if e.Op == "call" && e.Name == "fresh" && len(e.Args) == 1 && e.Args[0].Op == "id" && names[e.Args[0].Name] {
			return true
		}
		for _, a := range e.Args {
			if has(a) {
				return true
			}
		}
		return false
	}
	for _, c := range fc.Clauses {
		if c.Kind == "ensures" && !c.IsLoop && has(c.Expr) {
			return true
		}
	}
	return false
}

// havocFreshRegion: reference-valued heap arrays the callee can write keep their value on every object that existed
// at the call (watermark wmCall) and are unknown on newer objects.
func (v *Verifier) havocFreshRegion(s *State, fn *ssa.Function, wmCall *Term) {
	sum := v.summaryOf(fn)
	bumped := false
	for _, k := range sortedKeys(sum.full) {
		if _, isRef := refHeaps[k]; !isRef {
			continue
		}
		srt := sum.full[k]
		is, _, ok := arrayParts(srt)
		if !ok || is != SInt {
			continue
		}
		if !bumped {
			s.bumpWM()
			bumped = true
		}
		old := s.heapArr(k, srt)
		nh := s.freshHeap("Hf!", k, srt)
		r := BoundVar("r!new", SInt)
		addFact(nh, Forall([]*Term{r}, Implies(Le(r, wmCall), Eq(Select(nh, r), Select(old, r))), []*Term{Select(nh, r)}))
	}
}
