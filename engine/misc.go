package main

import (
	"math/big"
)

type bigIntT = big.Int

var bigOne = big.NewInt(1)

func autoReplay(opt Options, ob *Obligation, inputs map[string]string) (outcome, log, src string) {
	return "not-replayable", "", ""
}

func rerunGenerated(opt Options, rf replayFile) (string, string) { return "not-replayable", "" }
