package main

import (
	"math/big"

	"golang.org/x/tools/go/ssa"
)

type bigIntT = big.Int

var bigOne = big.NewInt(1)

var _ = ssa.NaiveForm

func tryReplay(opt Options, ob *Obligation, inputs map[string]string) (outcome, log, src string) {
	return "not-replayable", "", ""
}

func RunReplay(args []string) int { return 0 }
