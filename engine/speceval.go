package main

// Evaluation of contract expressions in a symbolic state.

import (
	"fmt"
	"go/constant"
	"go/token"
	"go/types"
	"math/big"
	"os"
	"runtime/debug"
	"strings"

	"golang.org/x/tools/go/ssa"
)

const (
	evalCall = iota // callee contract at a call site (env holds params/results)
	evalLoop        // loop invariant in the function under verification (names = current locals)
	evalPost        // postcondition of the function under verification (params = entry values)
	evalPre         // precondition of the function under verification
)

type Eval struct {
	altPkg *types.Package // package of the callee whose contract is applied (fallback scope for type names)
	v     *Verifier
	st    *State
	old   *State
	env   map[string]*Value
	bound map[string]*Value
	mode  int
	fc    *FuncContract
	fn    *ssa.Function
	cells *frameCells
	inOld bool
	pkg   *types.Package
	loop  *loopInfo
	prev  *State // iteration-start snapshot for prev(e) in `loop N step` clauses
	// lockedAt != nil: locked(e) denotes e in this state (a callee's contract applied at a call site: the state in which
	// the callee took its lock is the pre-state of the call with everything the callee's monitors guard unknown)
	lockedAt *State
	// frameFrom != nil: havocTarget does not invent fresh values but copies, for every declared target, the value the
	// location has in frameFrom (frame check: "the state reached differs from the entry state only at declared targets")
	frameFrom *State
}

// loopOwnsAlloc: the rangeindex alloc belongs to the loop whose header stores to it.
func (ev *Eval) loopOwnsAlloc(a *ssa.Alloc) bool {
	for _, ins := range ev.loop.header.Instrs {
		if st, ok := ins.(*ssa.Store); ok && st.Addr == ssa.Value(a) {
			return true
		}
	}
	return false
}

var specInt = types.Typ[types.UntypedInt]
var specBool = types.Typ[types.Bool]

func (v *Verifier) newEval(s *State, fn *ssa.Function, fc *frameCells, mode int) *Eval {
	ev := &Eval{v: v, st: s, old: v.entry, env: map[string]*Value{}, mode: mode, fn: fn, cells: fc, fc: v.contracts.forFunc(fn)}
	if fn != nil {
		ev.pkg = fnPkg(fn)
	}
	return ev
}

func (ev *Eval) fail(format string, a ...interface{}) {
	if os.Getenv("GOVC_DEBUG") == "stale" {
		debug.PrintStack()
	}
	panic(abortExec{"CONTRACT-STALE: " + fmt.Sprintf(format, a...)})
}

func (ev *Eval) state() *State {
	if ev.inOld && ev.old != nil {
		return ev.old
	}
	return ev.st
}

func (ev *Eval) boolExpr(e *Expr) *Term {
	v := ev.eval(e)
	if len(v.L) != 1 || v.L[0].sort != SBool {
		ev.fail("expression %q is not boolean", e.Text)
	}
	return v.L[0]
}

func (ev *Eval) intExpr(e *Expr) *Term {
	v := ev.eval(e)
	if len(v.L) != 1 || v.L[0].sort != SInt {
		ev.fail("expression %q is not an integer", e.Text)
	}
	return v.L[0]
}

func (ev *Eval) eval(e *Expr) *Value {
	if ev.pkg == nil && ev.v != nil && ev.v.top != nil {
		ev.pkg = fnPkg(ev.v.top)
	}
	switch e.Op {
	case "paren":
		return ev.eval(e.Args[0])
	case "int":
		n := new(big.Int)
		if _, ok := n.SetString(e.Name, 0); !ok {
			ev.fail("bad int %q", e.Name)
		}
		return scalar(specInt, IntBig(n))
	case "str":
		return scalar(types.Typ[types.String], StrLit(e.Name))
	case "true":
		return scalar(specBool, True)
	case "false":
		return scalar(specBool, False)
	case "nil":
		return &Value{T: types.Typ[types.UntypedNil], L: []*Term{Int(0)}}
	case "id":
		return ev.ident(e.Name)
	case "call_locked":
	case "old":
		save := ev.inOld
		ev.inOld = true
		r := ev.eval(e.Args[0])
		ev.inOld = save
		return r
	case "unary":
		x := ev.eval(e.Args[0])
		if e.Name == "!" {
			return scalar(specBool, Not(x.term()))
		}
		return scalar(specInt, Neg(x.term()))
	case "cond":
		c := ev.boolExpr(e.Args[0])
		a := ev.eval(e.Args[1])
		b := ev.eval(e.Args[2])
		a, b = ev.unifyNil(a, b)
		return iteValue(c, a, b)
	case "bin":
		return ev.binary(e)
	case "in":
		k := ev.eval(e.Args[0])
		m := ev.eval(e.Args[1])
		if !isMap(m.T) {
			ev.fail("'in' needs a map: %q", e.Text)
		}
		mt := under(m.T).(*types.Map)
		k = ev.coerce(k, mt.Key())
		return scalar(specBool, ev.v.mapHas(ev.state(), m, k))
	case "field":
		return ev.field(e)
	case "index":
		return ev.index(e)
	case "slice":
		x := ev.eval(e.Args[0])
		lo := Int(0)
		if e.Args[1] != nil {
			lo = ev.intExpr(e.Args[1])
		}
		if isSlice(x.T) {
			hi := x.sLen()
			if e.Args[2] != nil {
				hi = ev.intExpr(e.Args[2])
			}
			return sliceValue(x.T, x.sArr(), Add(x.sOff(), lo), Sub(hi, lo), Sub(x.sCap(), lo))
		}
		if isString(x.T) {
			// the same uninterpreted substring term the engine uses for s[lo:hi]
			sl := App("slen", SInt, x.term())
			hi := sl
			if e.Args[2] != nil {
				hi = ev.intExpr(e.Args[2])
			}
			r := App("str.sub", SStr, x.term(), lo, hi)
			addFact(r, Eq(App("slen", SInt, r), Sub(hi, lo)))
			return scalar(x.T, r)
		}
		ev.fail("slice expression on %s", x.T)
	case "forall", "exists":
		return ev.quant(e)
	case "call":
		return ev.call(e)
	}
	ev.fail("cannot evaluate %q (op %s)", e.Text, e.Op)
	return nil
}

func (ev *Eval) unifyNil(a, b *Value) (*Value, *Value) {
	if isUntypedNil(a.T) && !isUntypedNil(b.T) {
		return zeroValue(b.T), b
	}
	if isUntypedNil(b.T) && !isUntypedNil(a.T) {
		return a, zeroValue(a.T)
	}
	return a, b
}

func isUntypedNil(t types.Type) bool {
	b, ok := t.(*types.Basic)
	return ok && b.Kind() == types.UntypedNil
}

func (ev *Eval) coerce(v *Value, t types.Type) *Value {
	if isUntypedNil(v.T) {
		return zeroValue(t)
	}
	if len(v.L) != len(leafSpecs(t)) {
		ev.fail("cannot use %s as %s", v.T, t)
	}
	return &Value{T: t, L: v.L}
}

func (ev *Eval) binary(e *Expr) *Value {
	op := e.Name
	switch op {
	case "&&":
		return scalar(specBool, And(ev.boolExpr(e.Args[0]), ev.boolExpr(e.Args[1])))
	case "||":
		return scalar(specBool, Or(ev.boolExpr(e.Args[0]), ev.boolExpr(e.Args[1])))
	case "==>":
		return scalar(specBool, Implies(ev.boolExpr(e.Args[0]), ev.boolExpr(e.Args[1])))
	case "<==>":
		return scalar(specBool, Iff(ev.boolExpr(e.Args[0]), ev.boolExpr(e.Args[1])))
	}
	a := ev.eval(e.Args[0])
	b := ev.eval(e.Args[1])
	switch op {
	case "==", "!=":
		a, b = ev.unifyNil(a, b)
		var eq *Term
		switch {
		case isIface(a.T) && isIface(b.T):
			eq = And(Eq(a.L[0], b.L[0]), Or(Eq(a.L[0], Int(0)), Eq(a.L[1], b.L[1])))
		case isSlice(a.T) && isSlice(b.T) && (isZero(a) || isZero(b)):
			eq = Eq(a.L[0], b.L[0]) // nil-ness of a slice: backing array reference
		default:
			if len(a.L) != len(b.L) {
				ev.fail("comparison of incompatible values in %q", e.Text)
			}
			for i := range a.L {
				if a.L[i] == nil || b.L[i] == nil {
					ev.fail("comparison of local addresses in %q", e.Text)
				}
				if a.L[i].sort != b.L[i].sort {
					ev.fail("sort mismatch in %q", e.Text)
				}
			}
			eq = valuesEq(a, b)
		}
		if op == "!=" {
			eq = Not(eq)
		}
		return scalar(specBool, eq)
	}
	x, y := a.term(), b.term()
	switch op {
	case "<":
		return scalar(specBool, Lt(x, y))
	case "<=":
		return scalar(specBool, Le(x, y))
	case ">":
		return scalar(specBool, Gt(x, y))
	case ">=":
		return scalar(specBool, Ge(x, y))
	case "+":
		if x.sort == SStr {
			r := App("str.cat", SStr, x, y)
			addFact(r, Eq(App("slen", SInt, r), Add(App("slen", SInt, x), App("slen", SInt, y))))
			return scalar(types.Typ[types.String], r)
		}
		return scalar(specInt, Add(x, y))
	case "-":
		return scalar(specInt, Sub(x, y))
	case "*":
		return scalar(specInt, Mul(x, y))
	case "/":
		return scalar(specInt, TDiv(x, y))
	case "%":
		return scalar(specInt, TMod(x, y))
	case "<<":
		if y.isInt() {
			return scalar(specInt, Mul(x, Pow2(uint(y.ival.Int64()))))
		}
	case ">>":
		if y.isInt() {
			return scalar(specInt, EDiv(x, Pow2(uint(y.ival.Int64()))))
		}
	case "&", "|", "^":
		tk := map[string]token.Token{"&": token.AND, "|": token.OR, "^": token.XOR}[op]
		return scalar(specInt, bitopTerm(tk, x, y, types.Typ[types.Uint64]))
	}
	ev.fail("unsupported operator %s in %q", op, e.Text)
	return nil
}

func isZero(v *Value) bool {
	for _, l := range v.L {
		if l == nil || !(l.isInt() && l.ival.Sign() == 0) {
			return false
		}
	}
	return true
}

func (ev *Eval) quant(e *Expr) *Value {
	// `forall a T, b U :: body` is parsed as nested quantifiers: bind all variables of the chain in one SMT quantifier
	// (a nested quantifier gets no usable multi-pattern and sends the solvers into instantiation loops)
	var names []string
	var bvs []*Value
	var vars []*Term
	cur := e
	for {
		t := ev.resolveType(cur.Typ)
		specs := leafSpecs(t)
		bv := &Value{T: t, L: make([]*Term, len(specs))}
		for i, sp := range specs {
			x := BoundVar("q!"+cur.Name+sp.Suffix, sp.Sort)
			bv.L[i] = x
			vars = append(vars, x)
		}
		names = append(names, cur.Name)
		bvs = append(bvs, bv)
		if cur.Args[0].Op == e.Op {
			cur = cur.Args[0]
			continue
		}
		break
	}
	if ev.bound == nil {
		ev.bound = map[string]*Value{}
	}
	saved := map[string]*Value{}
	had := map[string]bool{}
	for i, n := range names {
		if old, ok := ev.bound[n]; ok {
			saved[n] = old
			had[n] = true
		}
		ev.bound[n] = bvs[i]
	}
	body := ev.boolExpr(cur.Args[0])
	for _, n := range names {
		if had[n] {
			ev.bound[n] = saved[n]
		} else {
			delete(ev.bound, n)
		}
	}
	// bounded-range typing of integer bound vars is not assumed: spec ints are mathematical
	if e.Op == "forall" {
		return scalar(specBool, Forall(vars, body, inferPatterns(vars, body)...))
	}
	return scalar(specBool, Exists(vars, body))
}

func (ev *Eval) resolveType(name string) types.Type {
	name = strings.TrimSpace(name)
	if ev.pkg == nil && ev.v != nil && ev.v.top != nil {
		ev.pkg = fnPkg(ev.v.top)
	}
	switch name {
	case "int", "int64", "int32", "uint", "uint64", "uint32", "uint8", "byte", "uint16", "int16", "int8":
		return specInt
	case "bool":
		return types.Typ[types.Bool]
	case "string":
		return types.Typ[types.String]
	case "ref":
		return types.Typ[types.UnsafePointer]
	}
	if strings.HasPrefix(name, "*") {
		return types.NewPointer(ev.resolveType(name[1:]))
	}
	if strings.HasPrefix(name, "map[") {
		depth := 0
		for i := 3; i < len(name); i++ {
			switch name[i] {
			case '[':
				depth++
			case ']':
				depth--
				if depth == 0 {
					return types.NewMap(ev.resolveGoType(name[4:i]), ev.resolveGoType(name[i+1:]))
				}
			}
		}
	}
	if name == "any" {
		return types.NewInterfaceType(nil, nil)
	}
	if name == "error" {
		return types.Universe.Lookup("error").Type()
	}
	if strings.HasPrefix(name, "[]") {
		return types.NewSlice(ev.resolveType(name[2:]))
	}
	if ev.pkg != nil {
		if o := ev.pkg.Scope().Lookup(name); o != nil {
			if tn, ok := o.(*types.TypeName); ok {
				return tn.Type()
			}
		}
		if k := strings.Index(name, "."); k >= 0 {
			for _, imp := range ev.pkg.Imports() {
				if imp.Name() == name[:k] {
					if o := imp.Scope().Lookup(name[k+1:]); o != nil {
						if tn, ok := o.(*types.TypeName); ok {
							return tn.Type()
						}
					}
				}
			}
		}
	}
	if ev.altPkg != nil && ev.altPkg != ev.pkg {
		// a callee's contract applied at a call site in another package: type names of the callee's own package
		if o := ev.altPkg.Scope().Lookup(name); o != nil {
			if tn, ok := o.(*types.TypeName); ok {
				return tn.Type()
			}
		}
	}
	ev.fail("unknown type %q", name)
	return nil
}

// resolveGoType is resolveType but keeps Go integer types (used inside composite ghost types).
func (ev *Eval) resolveGoType(name string) types.Type {
	name = strings.TrimSpace(name)
	if o := types.Universe.Lookup(name); o != nil {
		if tn, ok := o.(*types.TypeName); ok {
			return tn.Type()
		}
	}
	return ev.resolveType(name)
}

func (ev *Eval) ident(name string) *Value {
	if v, ok := ev.bound[name]; ok {
		return v
	}
	// old(x) for a variable captured by reference: its value in the entry state
	if ev.inOld && ev.old != nil && ev.v.topClo != nil && ev.fn == ev.v.top && ev.fn != nil {
		for i, fv := range ev.fn.FreeVars {
			if fv.Name() == name && i < len(ev.v.topClo.Binds) {
				return ev.old.loadPtr(ev.v.topClo.Binds[i].term(), fv.Type().(*types.Pointer).Elem())
			}
		}
	}
	if v, ok := ev.env[name]; ok {
		return v
	}
	if ev.fn != nil && (ev.mode == evalLoop || ev.mode == evalPost || ev.mode == evalPre) {
		// parameters in post/pre state denote entry values
		if ev.mode != evalLoop || ev.inOld {
			if v, ok := ev.v.entryArgs[name]; ok && ev.fn == ev.v.top {
				return v
			}
		}
		if name == "rangeidx" && ev.loop != nil {
			// the hidden index variable of the go/ssa rangeindex loop being cut (-1 before the first iteration)
			for a, c := range ev.cells.m {
				if a.Comment == "rangeindex" && ev.loop.modCells[a] && a.Block() != nil && ev.loopOwnsAlloc(a) {
					if val, ok := ev.st.cells[c]; ok {
						return &Value{T: specInt, L: val.L}
					}
				}
			}
			ev.fail("rangeidx used in a loop that is not a range-over-slice loop")
		}
		if name == "rangeslice" && ev.loop != nil {
			// the slice value a range-over-slice loop iterates over (evaluated once, before the loop)
			for _, ins := range ev.loop.header.Instrs {
				if b, ok := ins.(*ssa.BinOp); ok && b.Op == token.LSS {
					if c, ok := b.Y.(*ssa.Call); ok && len(c.Call.Args) == 1 {
						if val := ev.v.regOrNil(ev.st, c.Call.Args[0]); val != nil {
							return val
						}
					}
				}
			}
			ev.fail("rangeslice used in a loop that is not a range-over-slice loop")
		}
		if c := ev.localCell(name); c != nil {
			st := ev.state()
			if ev.inOld {
				if v, ok := ev.v.entryArgs[name]; ok && ev.fn == ev.v.top {
					return v
				}
			}
			if val, ok := st.cells[c]; ok {
				return val
			}
			if val, ok := ev.st.cells[c]; ok {
				return val
			}
		}
		// escaping locals (heap allocated): find the Alloc register
		if ev.st.frame != nil {
			for reg, val := range ev.st.frame.regs {
				if a, ok := reg.(*ssa.Alloc); ok && a.Heap && a.Comment == name {
					et := a.Type().(*types.Pointer).Elem()
					return ev.state().loadPtr(val.term(), et)
				}
			}
			// free variables of closures (captured by reference)
			for _, fv := range ev.fn.FreeVars {
				if fv.Name() == name {
					if val, ok := ev.st.frame.regs[fv]; ok {
						et := fv.Type().(*types.Pointer).Elem()
						if val.LV != nil {
							return ev.state().load(val.LV)
						}
						return ev.state().loadPtr(val.term(), et)
					}
				}
			}
		}
		if v, ok := ev.v.entryArgs[name]; ok && ev.fn == ev.v.top {
			return v
		}
		// a local that was not (yet) declared on this path: its zero value
		for _, b := range ev.fn.Blocks {
			for _, ins := range b.Instrs {
				if a, ok := ins.(*ssa.Alloc); ok && a.Comment == name {
					if os.Getenv("GOVC_DEBUG") == "ident" {
						fmt.Fprintf(os.Stderr, "DEBUG ident %s falls back to zero (heap=%v frame=%v mode=%d)\n", name, a.Heap, ev.st.frame != nil, ev.mode)
						if ev.st.frame != nil {
							fmt.Fprintf(os.Stderr, "   frame fn=%s top=%s regs:", funcRef(ev.st.frame.fn), funcRef(ev.v.top))
							for reg := range ev.st.frame.regs {
								if al, ok := reg.(*ssa.Alloc); ok {
									fmt.Fprintf(os.Stderr, " %s/%s/%v", al.Name(), al.Comment, al.Heap)
								}
							}
							fmt.Fprintln(os.Stderr)
						}
					}
					return zeroValue(a.Type().(*types.Pointer).Elem())
				}
			}
		}
	}
	if g, ok := ev.state().ghost[name]; ok {
		return g
	}
	// package-level constants
	if ev.pkg != nil {
		if o := ev.pkg.Scope().Lookup(name); o != nil {
			switch oo := o.(type) {
			case *types.Const:
				return constToValue(oo.Type(), oo.Val())
			case *types.Var:
				addr := Const("glob!"+shortPkg(ev.pkg.Path())+"."+name, SInt)
				return ev.state().loadPtr(addr, oo.Type())
			}
		}
	}
	ev.fail("unknown identifier %q", name)
	return nil
}

func constToValue(t types.Type, c constant.Value) *Value {
	switch c.Kind() {
	case constant.Bool:
		return scalar(t, Bool(constant.BoolVal(c)))
	case constant.String:
		return scalar(t, StrLit(constant.StringVal(c)))
	case constant.Int:
		n := new(big.Int)
		n.SetString(c.ExactString(), 10)
		return scalar(t, IntBig(n))
	}
	return scalar(t, Const("const!"+sanitize(c.ExactString()), SInt))
}

func (ev *Eval) localCell(name string) *Cell {
	if ev.cells == nil {
		return nil
	}
	var best *Cell
	for a, c := range ev.cells.m {
		if a.Comment == name {
			if _, ok := ev.st.cells[c]; !ok {
				continue
			}
			if best == nil || c.Pos > best.Pos {
				best = c
			}
		}
	}
	return best
}

// field access, including promoted fields and pkg-qualified constants
func (ev *Eval) field(e *Expr) *Value {
	if e.Args[0].Op == "id" && ev.pkg != nil {
		// package-qualified constant?
		if _, isLocal := ev.tryIdent(e.Args[0].Name); !isLocal {
			for _, imp := range ev.pkg.Imports() {
				if imp.Name() == e.Args[0].Name {
					if o := imp.Scope().Lookup(e.Name); o != nil {
						if c, ok := o.(*types.Const); ok {
							return constToValue(c.Type(), c.Val())
						}
					}
				}
			}
		}
	}
	x := ev.eval(e.Args[0])
	return ev.selectField(x, e.Name, e.Text)
}

func (ev *Eval) tryIdent(name string) (val *Value, ok bool) {
	defer func() {
		if r := recover(); r != nil {
			if _, isA := r.(abortExec); isA {
				val, ok = nil, false
				return
			}
			panic(r)
		}
	}()
	return ev.ident(name), true
}

func (ev *Eval) selectField(x *Value, name string, text string) *Value {
	t := x.T
	if p, ok := under(t).(*types.Pointer); ok {
		st := p.Elem()
		u, ok := under(st).(*types.Struct)
		if !ok {
			ev.fail("field %s of non-struct pointer in %q", name, text)
		}
		// ghost fields
		if tc := ev.v.contracts.types[typeName(st)]; tc != nil {
			for _, g := range tc.Ghost {
				if g.Name == name {
					gt := ev.resolveType(g.Typ)
					if x.L[0] == nil {
						ev.fail("ghost field of local address")
					}
					return ev.loadGhostField(x.L[0], st, name, gt)
				}
			}
		}
		for i := 0; i < u.NumFields(); i++ {
			if u.Field(i).Name() == name {
				if x.LV != nil && x.L[0] == nil {
					root := ev.state().load(x.LV)
					lo, hi := fieldRange(u, i)
					return root.sub(lo, hi, u.Field(i).Type())
				}
				fv := ev.state().loadStructField(x.term(), st, i)
				return fv
			}
		}
		// promoted through embedded fields
		for i := 0; i < u.NumFields(); i++ {
			f := u.Field(i)
			if f.Embedded() {
				if isStruct(f.Type()) {
					sub := scalar(types.NewPointer(f.Type()), Add(x.term(), Int(fieldOffset(u, i))))
					if r := ev.trySelect(sub, name, text); r != nil {
						return r
					}
				} else if isPointer(f.Type()) {
					sub := ev.state().loadStructField(x.term(), st, i)
					if r := ev.trySelect(sub, name, text); r != nil {
						return r
					}
				}
			}
		}
		ev.fail("no field %s in %s (%q)", name, typeName(st), text)
	}
	if u, ok := under(t).(*types.Struct); ok {
		for i := 0; i < u.NumFields(); i++ {
			if u.Field(i).Name() == name {
				lo, hi := fieldRange(u, i)
				return x.sub(lo, hi, u.Field(i).Type())
			}
		}
		for i := 0; i < u.NumFields(); i++ {
			if u.Field(i).Embedded() {
				lo, hi := fieldRange(u, i)
				if r := ev.trySelect(x.sub(lo, hi, u.Field(i).Type()), name, text); r != nil {
					return r
				}
			}
		}
	}
	ev.fail("cannot select field %s from %s in %q", name, t, text)
	return nil
}

func (ev *Eval) trySelect(x *Value, name, text string) (r *Value) {
	defer func() {
		if rec := recover(); rec != nil {
			if _, ok := rec.(abortExec); ok {
				r = nil
				return
			}
			panic(rec)
		}
	}()
	return ev.selectField(x, name, text)
}

func (ev *Eval) loadGhostField(ref *Term, st types.Type, name string, gt types.Type) *Value {
	keys := heapKeys("G:"+typeName(st)+"."+name, gt, SInt)
	v := &Value{T: gt, L: make([]*Term, len(keys))}
	for k, hk := range keys {
		v.L[k] = Select(ev.state().heapArr(hk.name, hk.sort), ref)
	}
	return v
}

func (ev *Eval) index(e *Expr) *Value {
	x := ev.eval(e.Args[0])
	switch u := under(x.T).(type) {
	case *types.Slice:
		i := ev.intExpr(e.Args[1])
		return ev.state().loadElem(x.sArr(), Elt(x.sOff(), i), u.Elem())
	case *types.Map:
		k := ev.coerce(ev.eval(e.Args[1]), u.Key())
		return ev.v.mapGet(ev.state(), x, k)
	case *types.Array:
		i := ev.intExpr(e.Args[1])
		n := &Value{T: u.Elem(), L: make([]*Term, len(x.L))}
		for k, l := range x.L {
			n.L[k] = Select(l, i)
		}
		return n
	case *types.Basic:
		if isString(x.T) {
			return scalar(specInt, App("str.at", SInt, x.term(), ev.intExpr(e.Args[1])))
		}
	case *types.Pointer:
		if at, ok := under(u.Elem()).(*types.Array); ok {
			i := ev.intExpr(e.Args[1])
			if x.LV != nil {
				root := ev.state().load(x.LV)
				n := &Value{T: at.Elem(), L: make([]*Term, len(root.L))}
				for k, l := range root.L {
					n.L[k] = Select(l, i)
				}
				return n
			}
			return ev.state().loadElem(x.term(), i, at.Elem())
		}
	}
	ev.fail("cannot index %s in %q", x.T, e.Text)
	return nil
}

func (ev *Eval) call(e *Expr) *Value {
	if k := strings.Index(e.Name, "."); k > 0 {
		// x.Method(args) where x is a value (not a package): rewrite to Method(x, args)
		if _, ok := ev.tryIdent(e.Name[:k]); ok {
			ne := &Expr{Op: "call", Name: e.Name[k+1:], Text: e.Text}
			ne.Args = append([]*Expr{{Op: "id", Name: e.Name[:k], Text: e.Name[:k]}}, e.Args...)
			return ev.call(ne)
		}
	}
	switch e.Name {
	case "prev":
		// prev(e): value of e at the start of the current loop iteration (only in `loop N step` clauses)
		if ev.prev == nil {
			ev.fail("prev(...) outside a loop step clause")
		}
		saveSt := ev.st
		ev.st = ev.prev
		r := ev.eval(e.Args[0])
		ev.st = saveSt
		return r
	case "prevmem":
		// prevmem(e): e evaluated with the current local variables but the memory of the iteration start
		// (`prevmem(x.f)` for the x of this iteration: what x.f was before the iteration ran)
		if ev.prev == nil {
			ev.fail("prevmem(...) outside a loop step clause")
		}
		hy := ev.st.clone()
		hy.heap = map[string]*Term{}
		for k, h := range ev.prev.heap {
			hy.heap[k] = h
		}
		hy.lazyHavoc = ev.prev.lazyHavoc
		saveSt := ev.st
		ev.st = hy
		r := ev.eval(e.Args[0])
		ev.st = saveSt
		return r
	case "locked":
		// value of e right after the function under verification first acquired a monitor lock
		snap := ev.st.lockSnap
		if ev.lockedAt != nil {
			snap = ev.lockedAt
		}
		if snap == nil {
			// no guarded lock on this path: locked(e) degenerates to the entry state
			snap = ev.v.entry
		}
		saveOld, saveIn := ev.old, ev.inOld
		ev.old, ev.inOld = snap, true
		r := ev.eval(e.Args[0])
		ev.old, ev.inOld = saveOld, saveIn
		return r
	case "len":
		x := ev.eval(e.Args[0])
		return scalar(specInt, ev.v.lenOf(ev.state(), x))
	case "cap":
		x := ev.eval(e.Args[0])
		if _, ok := under(x.T).(*types.Chan); ok {
			return scalar(specInt, Select(ev.state().heapArr("chan#cap", ArrSort(SInt, SInt)), x.term()))
		}
		return scalar(specInt, x.sCap())
	case "min", "max":
		r := ev.intExpr(e.Args[0])
		for _, a := range e.Args[1:] {
			y := ev.intExpr(a)
			if e.Name == "min" {
				r = Ite(Le(r, y), r, y)
			} else {
				r = Ite(Ge(r, y), r, y)
			}
		}
		return scalar(specInt, r)
	case "abs":
		x := ev.intExpr(e.Args[0])
		return scalar(specInt, Ite(Ge(x, Int(0)), x, Neg(x)))
	case "held":
		return scalar(specBool, Bool(ev.v.isHeld(ev.st, ev.eval(e.Args[0]))))
	case "aligned":
		x := ev.intExpr(e.Args[0])
		u := ev.intExpr(e.Args[1])
		return scalar(specBool, Eq(TMod(x, u), Int(0)))
	case "typeof":
		x := ev.eval(e.Args[0])
		return scalar(specInt, x.L[0])
	case "tagof":
		// tagof("pkg.Type") : type id constant
		return scalar(specInt, Int(typeID(ev.resolveType(e.Args[0].Name))))
	case "closed":
		ch := ev.eval(e.Args[0])
		return scalar(specBool, Select(ev.state().heapArr("chan#closed", ArrSort(SInt, SBool)), ch.term()))
	case "ref":
		// ref(p): the integer address of a pointer value
		x := ev.eval(e.Args[0])
		return scalar(specInt, x.L[0])
	case "running":
		// running(c): a goroutine whose last action is close(c) was started and c has not been received from since
		ch := ev.eval(e.Args[0])
		return scalar(specBool, Select(ev.state().heapArr("chan#running", runningSort), ch.term()))
	case "atgo":
		// atgo(g): value of ghost variable g when the (last) go statement of this function executed
		if e.Args[0].Op != "id" {
			ev.fail("atgo(<ghost variable>)")
		}
		if g := ev.state().ghost["$atgo!"+e.Args[0].Name]; g != nil {
			return g
		}
		return ev.eval(e.Args[0])
	case "once":
		// once(x.f): has the sync.Once stored in field f of x fired?
		a := ev.evalAddr(e.Args[0])
		slot, idx := onceSlot(a)
		return scalar(specBool, Select(ev.state().heapArr(slot, onceSort), idx))
	case "sent":
		// sent(ch): number of send statements executed on channel ch by the code under verification
		ch := ev.eval(e.Args[0])
		return scalar(specInt, Select(ev.state().heapArr("chan#sent", ArrSort(SInt, SInt)), ch.term()))
	case "holds":
		// holds(x.mu): this goroutine holds mutex x.mu at this point of the path (for reading or writing)
		a := ev.evalAddr(e.Args[0])
		key, _, _, _ := ev.v.lockKey(a)
		for _, h := range ev.state().held {
			if h.key == key {
				return scalar(specBool, True)
			}
		}
		return scalar(specBool, False)
	case "didlock":
		// true iff this path acquired a monitor lock that guards fields
		if g := ev.state().ghost["$didlock"]; g != nil {
			return scalar(specBool, g.term())
		}
		return scalar(specBool, False)
	case "gocount":
		if g := ev.state().ghost["$gocount"]; g != nil {
			return scalar(specInt, g.term())
		}
		return scalar(specInt, Int(0))
	case "implements":
		x := ev.eval(e.Args[0])
		if !isIface(x.T) || e.Args[1].Op != "str" {
			ev.fail("implements(x, \"pkg.Iface\")")
		}
		return scalar(specBool, implementsTerm(x.L[0], ev.resolveType(e.Args[1].Name)))
	case "as":
		// as(x, "*T"): the pointer held by interface value x, typed *T (meaningful where typeof(x) == tagof("*T"))
		x := ev.eval(e.Args[0])
		if !isIface(x.T) || len(e.Args) != 2 || e.Args[1].Op != "str" {
			ev.fail("as(x, \"*T\")")
		}
		t := ev.resolveType(e.Args[1].Name)
		if _, ok := under(t).(*types.Pointer); !ok {
			ev.fail("as: %s is not a pointer type", e.Args[1].Name)
		}
		return &Value{T: t, L: []*Term{x.L[1]}}
	case "deref":
		// deref(p): the value p points to, read in the state the expression is evaluated in (old(deref(p)) for the pre-state)
		x := ev.eval(e.Args[0])
		pt, ok := under(x.T).(*types.Pointer)
		if !ok || len(e.Args) != 1 {
			ev.fail("deref(p) needs a pointer")
		}
		ev.v.suppressObs++
		lv := ev.v.lvOf(ev.state(), x, token.NoPos)
		ev.v.suppressObs--
		val := ev.state().load(lv)
		return &Value{T: pt.Elem(), L: val.L}
	case "asString":
		// the string held by an interface value (any) whose dynamic type is string
		x := ev.eval(e.Args[0])
		if !isIface(x.T) {
			ev.fail("asString needs an interface value")
		}
		return ev.v.unbox(ev.state(), x, types.Typ[types.String])
	case "oldhas", "oldget":
		// oldhas(m, k) / oldget(m, k): membership / value in the pre-state map contents for a key computed in the post-state
		m := ev.eval(e.Args[0])
		k := ev.eval(e.Args[1])
		if !isMap(m.T) || ev.old == nil {
			ev.fail("%s(m, k) needs a map and a pre-state", e.Name)
		}
		mt := under(m.T).(*types.Map)
		k = ev.coerce(k, mt.Key())
		if e.Name == "oldhas" {
			return scalar(specBool, ev.v.mapHas(ev.old, m, k))
		}
		return ev.v.mapGet(ev.old, m, k)
	case "sprintf":
		// sprintf("fmt", args...): the same uninterpreted term the verifier uses for fmt.Sprintf with that constant format
		if len(e.Args) < 1 || e.Args[0].Op != "str" {
			ev.fail("sprintf needs a literal format")
		}
		var args []*Term
		for _, a := range e.Args[1:] {
			x := ev.eval(a)
			for _, l := range x.L {
				if l == nil {
					ev.fail("sprintf of a local address")
				}
				args = append(args, l)
			}
		}
		return scalar(types.Typ[types.String], App("sprintf!"+e.Args[0].Name+sortSig(args), SStr, args...))
	case "fresh":
		// fresh(p): the object p points to was allocated during this execution of the function under verification
		x := ev.eval(e.Args[0])
		if x.L[0] == nil {
			ev.fail("fresh of a local address")
		}
		// at a call site (callee contract) "this execution" is the call: allocated after the pre-state watermark
		if ev.mode == evalCall && ev.old != nil && ev.old != ev.st {
			return scalar(specBool, Gt(x.L[0], ev.old.wm))
		}
		return scalar(specBool, Gt(x.L[0], Const("wm0", SInt)))
	case "payload":
		// payload(x): the data word of an interface value (the pointer itself when the dynamic type is a pointer)
		x := ev.eval(e.Args[0])
		if !isIface(x.T) {
			ev.fail("payload needs an interface value")
		}
		return &Value{T: types.Typ[types.UnsafePointer], L: []*Term{x.L[1]}}
	case "isnil":
		x := ev.eval(e.Args[0])
		return scalar(specBool, Eq(x.L[0], Int(0)))
	}
	if pf, ok := ev.v.contracts.pures[e.Name]; ok {
		if len(pf.Params) != len(e.Args) {
			ev.fail("pure %s: wrong number of arguments", e.Name)
		}
		var args []*Value
		for _, a := range e.Args {
			args = append(args, ev.eval(a))
		}
		if pf.Uninterp {
			var ts []*Term
			for _, a := range args {
				ts = append(ts, a.L...)
			}
			rt := ev.resolveType(pf.Ret)
			specs := leafSpecs(rt)
			if len(specs) != 1 {
				ev.fail("uf %s must return a scalar", e.Name)
			}
			for _, t := range ts {
				if t == nil {
					ev.fail("uf %s applied to a local address", e.Name)
				}
			}
			return scalar(rt, App("uf!"+pf.Name, specs[0].Sort, ts...))
		}
		// the body of a pure function is lexically closed: the caller's quantified variables are not visible in it
		// (a parameter named like one of them would otherwise be captured)
		sub := &Eval{v: ev.v, st: ev.st, old: ev.old, env: map[string]*Value{}, bound: map[string]*Value{}, mode: evalCall, fn: nil, inOld: ev.inOld, pkg: ev.pkg}
		for i, p := range pf.Params {
			sub.env[p] = args[i]
		}
		return sub.eval(pf.Body)
	}
	// a real (pure, small) method of the first argument's type: executed on a scratch copy of the state
	if len(e.Args) >= 1 {
		recv := ev.eval(e.Args[0])
		if m := ev.lookupMethod(recv.T, e.Name); m != nil && m.Blocks != nil {
			var args []*Value
			args = append(args, recv)
			for _, a := range e.Args[1:] {
				args = append(args, ev.eval(a))
			}
			base := ev.state()
			idMark := TS.nextID
			st := base.clone()
			if st.frame == nil {
				st.frame = &Frame{fn: m, regs: map[ssa.Value]*Value{}}
			}
			ev.v.suppressObs++
			ev.v.noFork++
			res := ev.v.inline(st, m, args, nil, m.Pos())
			ev.v.noFork--
			ev.v.suppressObs--
			if res != nil && !st.dead {
				// facts the scratch execution learned about the fresh symbols in the result (callee contracts) are kept
				if len(st.pc) > len(base.pc) {
					for _, c := range st.pc[len(base.pc):] {
						// only facts that define symbols created by the scratch run (never assumptions about existing state)
						if mentionsNewConst(c, idMark) {
							ev.st.assume(c)
						}
					}
				}
				return res
			}
		}
	}
	ev.fail("unknown spec function %q", e.Name)
	return nil
}

func (ev *Eval) lookupMethod(t types.Type, name string) *ssa.Function {
	var pkg *types.Package
	if n, ok := types.Unalias(t).(*types.Named); ok {
		pkg = n.Obj().Pkg()
	} else if p, ok := types.Unalias(t).(*types.Pointer); ok {
		if n, ok := types.Unalias(p.Elem()).(*types.Named); ok {
			pkg = n.Obj().Pkg()
		}
	}
	if pkg == nil {
		return nil
	}
	return ev.v.prog.LookupMethod(t, pkg, name)
}

// havocTarget implements `modifies` targets at call sites.
func (ev *Eval) havocTarget(e *Expr) {
	s := ev.st
	ff := ev.frameFrom
	if e.Op == "id" && e.Name == "anything" {
		ev.havocEverything()
		return
	}
	if e.Op == "id" && e.Name == "nothing" {
		return
	}
	switch e.Op {
	case "field":
		x := ev.evalPre(e.Args[0])
		p, ok := under(x.T).(*types.Pointer)
		if !ok {
			ev.fail("modifies %q: base is not a pointer", e.Text)
		}
		st := p.Elem()
		u := under(st).(*types.Struct)
		if tc := ev.v.contracts.types[typeName(st)]; tc != nil {
			for _, g := range tc.Ghost {
				if g.Name == e.Name {
					gt := ev.resolveType(g.Typ)
					for _, hk := range heapKeys("G:"+typeName(st)+"."+e.Name, gt, SInt) {
						_, inner, _ := arrayParts(hk.sort)
						nv := Fresh("mod!"+hk.name, inner)
						if ff != nil {
							nv = Select(ff.heapArr(hk.name, hk.sort), x.term())
						}
						s.heap[hk.name] = Store(s.heapArr(hk.name, hk.sort), x.term(), nv)
					}
					return
				}
			}
		}
		for i := 0; i < u.NumFields(); i++ {
			if u.Field(i).Name() == e.Name {
				if ff != nil {
					s.storeStructField(x.term(), st, i, ff.loadStructField(x.term(), st, i))
					return
				}
				nv := freshValue("mod!"+e.Name, u.Field(i).Type())
				s.bumpWM()
				s.assumeAllocated(nv)
				s.storeStructField(x.term(), st, i, nv)
				return
			}
		}
		ev.fail("modifies %q: no such field", e.Text)
	case "star":
		x := ev.evalPre(e.Args[0])
		switch u := under(x.T).(type) {
		case *types.Slice:
			et := u.Elem()
			for _, hk := range heapKeys(elemBase(et), et, SInt, SInt) {
				h := s.heapArr(hk.name, hk.sort)
				_, inner, _ := arrayParts(hk.sort)
				na := Fresh("mod!elems", inner)
				// frame: only indices within [off, off+len) may change
				i := BoundVar("i!mod", SInt)
				old := Select(h, x.sArr())
				outside := Or(Lt(i, x.sOff()), Ge(i, Add(x.sOff(), x.sLen())))
				if ff != nil {
					cur := Select(ff.heapArr(hk.name, hk.sort), x.sArr())
					ff.assume(Forall([]*Term{i}, Eq(Select(na, i), Ite(outside, Select(old, i), Select(cur, i))), []*Term{Select(na, i)}))
					s.heap[hk.name] = Store(h, x.sArr(), na)
					continue
				}
				addFact(na, Forall([]*Term{i}, Implies(outside, Eq(Select(na, i), Select(old, i))), []*Term{Select(na, i)}))
				if isRefLeaf(hk.spec) {
					i2 := BoundVar("i!modab", SInt)
					addFact(na, Forall([]*Term{i2}, Le(Select(na, i2), s.wm), []*Term{Select(na, i2)}))
				}
				s.heap[hk.name] = Store(h, x.sArr(), na)
			}
		case *types.Map:
			ms := map[string]Sort{}
			addMapKeys(ms, x.T)
			if ff == nil {
				s.bumpWM()
			}
			for _, k := range sortedKeys(ms) {
				h := s.heapArr(k, ms[k])
				_, inner, _ := arrayParts(ms[k])
				nv := Fresh("mod!map", inner)
				if ff != nil {
					nv = Select(ff.heapArr(k, ms[k]), x.term())
				}
				s.heap[k] = Store(h, x.term(), nv)
			}
			if ff == nil {
				ev.v.assumeMapValuesAllocated(s, x)
			}
		case *types.Pointer:
			ev.havocPointee(x, u)
		default:
			ev.fail("modifies %q: unsupported target", e.Text)
		}
	case "id":
		// ghost global
		if g, ok := s.ghost[e.Name]; ok {
			if ff != nil {
				if cur, ok := ff.ghost[e.Name]; ok {
					s.ghost[e.Name] = cur
				}
				return
			}
			s.ghost[e.Name] = freshValue("mod!"+e.Name, g.T)
			return
		}
		// identifiers naming pointer params are treated as *p
		x := ev.evalPre(e)
		if p, ok := under(x.T).(*types.Pointer); ok {
			ev.havocPointee(x, p)
			return
		}
		ev.fail("modifies %q: not a ghost variable or pointer", e.Text)
	case "call":
		if e.Name == "once" && len(e.Args) == 1 {
			a := ev.evalAddrPre(e.Args[0])
			slot, idx := onceSlot(a)
			h := s.heapArr(slot, onceSort)
			nv := Fresh("mod!once", SBool)
			if ff != nil {
				nv = Select(ff.heapArr(slot, onceSort), idx)
			}
			s.heap[slot] = Store(h, idx, nv)
			return
		}
		if e.Name == "heap" && len(e.Args) == 1 && e.Args[0].Op == "str" {
			// modifies heap("F:pkg.T.f"): whole heap family
			ev.havocPrefix(e.Args[0].Name)
			return
		}
		if e.Name == "backing" && len(e.Args) == 1 {
			// modifies backing(s): every element of the array slice s points into (also beyond len: append writes there)
			x := ev.evalPre(e.Args[0])
			u, ok := under(x.T).(*types.Slice)
			if !ok {
				ev.fail("modifies %q: backing needs a slice", e.Text)
			}
			et := u.Elem()
			for _, hk := range heapKeys(elemBase(et), et, SInt, SInt) {
				h := s.heapArr(hk.name, hk.sort)
				_, inner, _ := arrayParts(hk.sort)
				na := Fresh("mod!backing", inner)
				if ff != nil {
					na = Select(ff.heapArr(hk.name, hk.sort), x.sArr())
				} else if isRefLeaf(hk.spec) {
					i2 := BoundVar("i!modab", SInt)
					s.bumpWM()
					addFact(na, Forall([]*Term{i2}, Le(Select(na, i2), s.wm), []*Term{Select(na, i2)}))
				}
				s.heap[hk.name] = Store(h, x.sArr(), na)
			}
			return
		}
		ev.fail("modifies %q: unsupported", e.Text)
	default:
		ev.fail("modifies %q: unsupported target", e.Text)
	}
}

// evalPre evaluates the location expression of a modifies target in the pre-state of the call: every target of a
// `modifies` list denotes a location of the state before the call, whatever the order the targets are written in.
func (ev *Eval) evalPre(e *Expr) *Value {
	if ev.old == nil || ev.inOld {
		return ev.eval(e)
	}
	ev.inOld = true
	defer func() { ev.inOld = false }()
	return ev.eval(e)
}

func (ev *Eval) evalAddrPre(e *Expr) *Value {
	if ev.old == nil || ev.inOld {
		return ev.evalAddr(e)
	}
	ev.inOld = true
	defer func() { ev.inOld = false }()
	return ev.evalAddr(e)
}

func (ev *Eval) havocPointee(x *Value, p *types.Pointer) {
	s := ev.st
	if isStruct(p.Elem()) {
		nv := (*Value)(nil)
		if ev.frameFrom != nil {
			nv = ev.frameFrom.loadStruct(x.term(), p.Elem())
		} else {
			nv = freshValue("mod!obj", p.Elem())
		}
		s.storeStruct(x.term(), p.Elem(), nv)
		return
	}
	if ev.frameFrom != nil {
		s.storePtr(x.term(), p.Elem(), ev.frameFrom.loadPtr(x.term(), p.Elem()))
		return
	}
	s.storePtr(x.term(), p.Elem(), freshValue("mod!ptr", p.Elem()))
}

// havocPrefix: every heap array whose name starts with prefix is unknown afterwards, including arrays that no
// instruction has touched so far on this path (they are given a fresh value when first used).
func (ev *Eval) havocPrefix(prefix string) {
	s := ev.st
	if ff := ev.frameFrom; ff != nil {
		for _, k := range sortedKeys(ff.heap) {
			if strings.HasPrefix(k, prefix) {
				s.heap[k] = ff.heap[k]
			}
		}
		return
	}
	s.bumpWM()
	for _, k := range sortedKeys(s.heap) {
		if strings.HasPrefix(k, prefix) {
			s.freshHeap("mod!", k, s.heap[k].sort)
		}
	}
	s.lazyHavoc = append(s.lazyHavoc[:len(s.lazyHavoc):len(s.lazyHavoc)], lazyHavoc{prefix: prefix, wm: s.wm})
}

// havocEverything (`modifies anything`): all heap arrays and ghost globals are unknown afterwards.
func (ev *Eval) havocEverything() {
	s := ev.st
	if ff := ev.frameFrom; ff != nil {
		for _, k := range sortedKeys(ff.heap) {
			s.heap[k] = ff.heap[k]
		}
		for _, k := range sortedKeys(ff.ghost) {
			s.ghost[k] = ff.ghost[k]
		}
		return
	}
	ev.havocPrefix("")
	for _, k := range sortedKeys(s.ghost) {
		if strings.HasPrefix(k, "$") {
			continue
		}
		s.ghost[k] = freshValue("mod!"+k, s.ghost[k].T)
	}
}

// inferPatterns picks E-matching triggers: select/app terms mentioning bound variables, free of boolean structure.
func inferPatterns(vars []*Term, body *Term) [][]*Term {
	isVar := map[int]bool{}
	for _, v := range vars {
		isVar[v.id] = true
	}
	varsOf := func(t *Term) map[int]bool {
		out := map[int]bool{}
		var rec func(t *Term)
		seen := map[int]bool{}
		rec = func(t *Term) {
			if seen[t.id] || !t.bound {
				return
			}
			seen[t.id] = true
			if t.op == "var" && isVar[t.id] {
				out[t.id] = true
			}
			for _, a := range t.args {
				rec(a)
			}
		}
		rec(t)
		return out
	}
	okPattern := func(t *Term) bool {
		ok := true
		var rec func(t *Term)
		rec = func(t *Term) {
			switch t.op {
			case "select", "app", "var", "const", "int", "store":
			case "+", "-", "*":
				// arithmetic over bound variables defeats syntactic matching
				if t.bound {
					ok = false
				}
			default:
				ok = false
			}
			for _, a := range t.args {
				rec(a)
			}
		}
		rec(t)
		return ok
	}
	var cands []*Term
	seen := map[int]bool{}
	var collect func(t *Term, underQuant bool)
	collect = func(t *Term, underQuant bool) {
		if seen[t.id] || !t.bound {
			return
		}
		seen[t.id] = true
		if t.op == "forall" || t.op == "exists" {
			return // do not pick triggers from nested quantifier bodies
		}
		if (t.op == "select" || t.op == "app") && t.sort != "" && okPattern(t) && len(varsOf(t)) > 0 {
			cands = append(cands, t)
			// still descend: smaller sub-terms may be better, but we prefer the outermost selects
			return
		}
		for _, a := range t.args {
			collect(a, underQuant)
		}
	}
	collect(body, false)
	// matching loops: a candidate f(x) over a bare variable is dropped when the body also contains f(t(x)) for a
	// non-variable t -- every instance would create a new, larger term that matches f(x) again
	{
		var all []*Term
		seenAll := map[int]bool{}
		var walk func(t *Term)
		walk = func(t *Term) {
			if seenAll[t.id] || !t.bound {
				return
			}
			seenAll[t.id] = true
			if t.op == "select" || t.op == "app" {
				all = append(all, t)
			}
			for _, a := range t.args {
				walk(a)
			}
		}
		walk(body)
		var match func(c, d *Term, sub map[int]*Term) bool
		match = func(c, d *Term, sub map[int]*Term) bool {
			if c.op == "var" && isVar[c.id] {
				if prev, ok := sub[c.id]; ok {
					return prev == d
				}
				sub[c.id] = d
				return true
			}
			if !c.bound {
				return c == d
			}
			if c.op != d.op || c.name != d.name || len(c.args) != len(d.args) {
				return false
			}
			for i := range c.args {
				if !match(c.args[i], d.args[i], sub) {
					return false
				}
			}
			return true
		}
		loops := func(c *Term) bool {
			for _, d := range all {
				if d == c {
					continue
				}
				sub := map[int]*Term{}
				if !match(c, d, sub) {
					continue
				}
				for _, t := range sub {
					if t.bound && !(t.op == "var" && isVar[t.id]) {
						return true
					}
				}
			}
			return false
		}
		kept := cands[:0:0]
		for _, c := range cands {
			if !loops(c) {
				kept = append(kept, c)
			}
		}
		if len(kept) > 0 {
			cands = kept
		}
	}
	if len(cands) == 0 {
		return nil
	}
	// single terms covering all vars -> each is its own pattern (alternatives)
	var pats [][]*Term
	for _, c := range cands {
		if len(varsOf(c)) == len(vars) {
			pats = append(pats, []*Term{c})
		}
	}
	if len(pats) > 0 {
		if len(pats) > 8 {
			pats = pats[:8]
		}
		return pats
	}
	// multi-pattern: greedy cover
	covered := map[int]bool{}
	var multi []*Term
	for _, c := range cands {
		add := false
		for v := range varsOf(c) {
			if !covered[v] {
				add = true
			}
		}
		if add {
			multi = append(multi, c)
			for v := range varsOf(c) {
				covered[v] = true
			}
		}
	}
	if len(covered) == len(vars) {
		return [][]*Term{multi}
	}
	return nil
}

// assignGhost stores a value into a ghost field (x.g) or ghost global.
func (ev *Eval) assignGhost(lhs *Expr, val *Value) {
	s := ev.st
	switch lhs.Op {
	case "id":
		if _, ok := s.ghost[lhs.Name]; ok {
			s.ghost[lhs.Name] = val
			return
		}
	case "field":
		x := ev.eval(lhs.Args[0])
		if p, ok := under(x.T).(*types.Pointer); ok {
			st := p.Elem()
			if tc := ev.v.contracts.types[typeName(st)]; tc != nil {
				for _, g := range tc.Ghost {
					if g.Name == lhs.Name {
						gt := ev.resolveType(g.Typ)
						for k, hk := range heapKeys("G:"+typeName(st)+"."+lhs.Name, gt, SInt) {
							s.heap[hk.name] = Store(s.heapArr(hk.name, hk.sort), x.term(), val.L[k])
						}
						return
					}
				}
			}
		}
	}
	ev.fail("ghost assignment target %q is not a ghost variable or ghost field", lhs.Text)
}

func mentionsNewConst(t *Term, mark int) bool {
	seen := map[int]bool{}
	var rec func(t *Term) bool
	rec = func(t *Term) bool {
		if seen[t.id] {
			return false
		}
		seen[t.id] = true
		if t.op == "const" && t.id > mark {
			return true
		}
		for _, a := range t.args {
			if rec(a) {
				return true
			}
		}
		return false
	}
	return rec(t)
}
