package main

import (
	"bytes"
	"os"
	"context"
	"os/exec"
	"regexp"
	"strconv"
	"strings"
	"sync"
	"time"
)

type SolveResult struct {
	Status  string // unsat | sat | unknown | timeout | error
	Solver  string
	Seconds float64
	Output  string // raw output (truncated)
	Model   map[string]string
	Agree   []string // other solvers that also answered unsat (thorough)
}

type solverSpec struct {
	name string
	argv func(timeoutS int) []string
	quant bool // good with quantifiers
}

var solvers = []solverSpec{
	{"z3-5.1.0", func(t int) []string { return []string{"z3-new", "-in", "-T:" + itoa(t)} }, true},
	{"cvc5-1.0", func(t int) []string {
		return []string{"cvc5", "--lang", "smt2", "--tlimit=" + itoa(t*1000)}
	}, true},
	{"z3-4.8.12", func(t int) []string { return []string{"z3", "-in", "-T:" + itoa(t)} }, false},
}

func itoa(i int) string { return strconv.Itoa(i) }

var solverSem = make(chan struct{}, 16)

var (
	dumpMu sync.Mutex
	dumpN  int
)

func runOne(ctx context.Context, sp solverSpec, script string, timeoutS int) SolveResult {
	start := time.Now()
	argv := sp.argv(timeoutS)
	cctx, cancel := context.WithTimeout(ctx, time.Duration(timeoutS+2)*time.Second)
	defer cancel()
	cmd := exec.CommandContext(cctx, argv[0], argv[1:]...)
	s := script
	if strings.HasPrefix(sp.name, "cvc5") {
		// cvc5 rejects (set-option :produce-models) after set-logic only; ours is before. ok.
	}
	if d := os.Getenv("GOVC_DUMP"); d != "" && sp.name == "z3-5.1.0" {
		dumpMu.Lock()
		dumpN++
		_ = os.WriteFile(d+"/q"+itoa(dumpN)+".smt2", []byte(s), 0o644)
		dumpMu.Unlock()
	}
	cmd.Stdin = strings.NewReader(s)
	var out bytes.Buffer
	cmd.Stdout = &out
	cmd.Stderr = &out
	_ = cmd.Run()
	res := SolveResult{Solver: sp.name, Seconds: time.Since(start).Seconds()}
	o := out.String()
	// skip solver warnings in front of the answer
	for strings.HasPrefix(o, "WARNING") || strings.HasPrefix(o, "(warning") {
		k := strings.Index(o, "\n")
		if k < 0 {
			break
		}
		o = o[k+1:]
	}
	first := strings.TrimSpace(strings.SplitN(o, "\n", 2)[0])
	switch {
	case first == "unsat":
		res.Status = "unsat"
	case first == "sat":
		res.Status = "sat"
		res.Model = parseModel(o)
	case first == "unknown":
		res.Status = "unknown"
	case strings.Contains(o, "timeout") || cctx.Err() != nil:
		res.Status = "timeout"
	default:
		res.Status = "error"
	}
	if len(o) > 6000 {
		o = o[:6000] + "\n...[truncated]"
	}
	res.Output = o
	return res
}

var modelRe = regexp.MustCompile(`\(define-fun\s+(\S+)\s+\(\)\s+(Int|Bool)\s+([^()\s]+|\(-\s*\d+\))\)`)

func parseModel(o string) map[string]string {
	o = strings.ReplaceAll(o, "\n", " ")
	m := map[string]string{}
	for _, mm := range modelRe.FindAllStringSubmatch(o, -1) {
		v := mm[3]
		if strings.HasPrefix(v, "(") {
			v = "-" + strings.TrimSpace(strings.Trim(v, "()-"))
		}
		m[mm[1]] = v
	}
	return m
}

// Solve races the solvers on one script. unsat from any wins; sat from any ends the race.
func Solve(script string, timeoutS int, quantified bool, needAgree bool) SolveResult {
	ctx, cancel := context.WithCancel(context.Background())
	defer cancel()
	ch := make(chan SolveResult, len(solvers))
	var wg sync.WaitGroup
	n := 0
	for _, sp := range solvers {
		if quantified && !sp.quant {
			continue
		}
		n++
		wg.Add(1)
		go func(sp solverSpec) {
			defer wg.Done()
			solverSem <- struct{}{}
			defer func() { <-solverSem }()
			if ctx.Err() != nil {
				ch <- SolveResult{Solver: sp.name, Status: "cancelled"}
				return
			}
			ch <- runOne(ctx, sp, script, timeoutS)
		}(sp)
	}
	var best *SolveResult
	var others []SolveResult
	var unsats []SolveResult
	// thorough tier: after the first unsat, the other solvers get a bounded grace period to agree (or to disagree)
	var grace <-chan time.Time
	for i := 0; i < n; i++ {
		var r SolveResult
		select {
		case r = <-ch:
		case <-grace:
			cancel()
			go func() { wg.Wait() }()
			return unsats[0]
		}
		if r.Status == "unsat" && needAgree && len(unsats) == 0 {
			grace = time.After(15 * time.Second)
		}
		switch r.Status {
		case "unsat":
			unsats = append(unsats, r)
			if !needAgree || len(unsats) >= 2 {
				cancel()
				res := unsats[0]
				for _, u := range unsats[1:] {
					res.Agree = append(res.Agree, u.Solver)
				}
				go func() { wg.Wait() }()
				return res
			}
		case "sat":
			if best == nil || best.Status != "sat" {
				rr := r
				best = &rr
			}
			if len(unsats) == 0 {
				cancel()
				go func() { wg.Wait() }()
				return *best
			}
		default:
			others = append(others, r)
		}
	}
	if len(unsats) > 0 && best == nil {
		// needAgree but only one solver managed: still unsat, record lack of agreement
		res := unsats[0]
		return res
	}
	if best != nil {
		if len(unsats) > 0 {
			best.Status = "error"
			best.Output = "SOLVER DISAGREEMENT: " + unsats[0].Solver + " says unsat, " + best.Solver + " says sat\n" + best.Output
		}
		return *best
	}
	// all unknown/timeout
	res := SolveResult{Status: "unknown"}
	for _, o := range others {
		if o.Status == "timeout" {
			res.Status = "timeout"
		}
		res.Solver += o.Solver + ":" + o.Status + " "
		if o.Seconds > res.Seconds {
			res.Seconds = o.Seconds
		}
		res.Output += "[" + o.Solver + "] " + trunc(o.Output, 500) + "\n"
	}
	return res
}
