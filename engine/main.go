package main

import (
	"flag"
	"fmt"
	"os"
	"strconv"
)

func main() {
	os.Setenv("PATH", "/opt/veriftools/go1.26.8/bin:"+os.Getenv("PATH"))
	os.Setenv("GOTOOLCHAIN", "local")
	os.Setenv("GOFLAGS", "-mod=mod")
	os.Setenv("GOPROXY", "off")
	os.Unsetenv("GOSUMDB")
	if len(os.Args) < 2 {
		fmt.Println("usage: govc check -p <prop> [-tier quick|thorough] | replay <file> | selftest")
		os.Exit(2)
	}
	switch os.Args[1] {
	case "check":
		fs := flag.NewFlagSet("check", flag.ExitOnError)
		var opt Options
		fs.StringVar(&opt.Repo, "repo", "/repo", "repository root")
		fs.StringVar(&opt.Verif, "verif", "/verif", "verif root")
		fs.StringVar(&opt.Prop, "p", "", "property id")
		fs.StringVar(&opt.Tier, "tier", "", "quick|thorough")
		fs.StringVar(&opt.OnlyFunc, "func", "", "only functions whose key contains this")
		fs.BoolVar(&opt.Verbose, "v", false, "verbose")
		fs.StringVar(&opt.DumpSMT, "dump", "", "dump SMT scripts to dir")
		fs.IntVar(&opt.Timeout, "timeout", 0, "per-obligation solver timeout (s)")
		fs.BoolVar(&opt.EmitOpen, "emit-open", false, "print open: lines for failing obligations")
		fs.BoolVar(&opt.NoReplay, "noreplay", false, "do not replay counterexamples")
		fs.BoolVar(&opt.NoEvidence, "noevidence", false, "do not write the evidence file")
		fs.Parse(os.Args[2:])
		if opt.Tier == "" {
			opt.Tier = os.Getenv("VERIF_TIER")
		}
		if opt.Tier == "" {
			opt.Tier = "quick"
		}
		if s := os.Getenv("VERIF_SEED"); s != "" {
			opt.Seed, _ = strconv.Atoi(s)
		}
		if opt.OnlyFunc != "" {
			opt.NoEvidence = true
		}
		os.Exit(RunCheck(opt))
	case "selftest":
		os.Exit(RunSelftest(os.Args[2:]))
	case "replay":
		os.Exit(RunReplay(os.Args[2:]))
	default:
		fmt.Println("unknown command", os.Args[1])
		os.Exit(2)
	}
}
