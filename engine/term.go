package main

// SMT term DAG with hash-consing and light simplification.

import (
	"fmt"
	"math/big"
	"sort"
	"strings"
)

type Sort string

const (
	SInt  Sort = "Int"
	SBool Sort = "Bool"
	SStr  Sort = "Str"
)

func ArrSort(idx, elem Sort) Sort { return Sort("(Array " + string(idx) + " " + string(elem) + ")") }

// arrayParts splits an array sort into index and element sorts.
func arrayParts(s Sort) (Sort, Sort, bool) {
	str := string(s)
	if !strings.HasPrefix(str, "(Array ") {
		return "", "", false
	}
	body := str[len("(Array ") : len(str)-1]
	// split first sort
	depth := 0
	for i := 0; i < len(body); i++ {
		switch body[i] {
		case '(':
			depth++
		case ')':
			depth--
		case ' ':
			if depth == 0 {
				return Sort(body[:i]), Sort(body[i+1:]), true
			}
		}
	}
	return "", "", false
}

type Term struct {
	id    int
	op    string // "const", "int", "true","false", "var"(bound), or SMT operator / UF name
	args  []*Term
	sort  Sort
	name  string   // for const / var / UF application (op=="app")
	ival  *big.Int // for int literals
	bound bool     // contains a bound variable
	binds []*Term  // for quantifiers: bound vars
	pats  [][]*Term
}

type TermStore struct {
	tab    map[string]*Term
	nextID int
	decls  map[string]string // const/fun name -> declaration line
	declOrder []string
	fresh  map[string]int
	axioms []*Term // global axioms always included when their symbols are used (simple: always)
	strLits map[string]*Term
	strLitOrder []string
}

var TS = newStore()

func newStore() *TermStore {
	return &TermStore{tab: map[string]*Term{}, decls: map[string]string{}, fresh: map[string]int{}, strLits: map[string]*Term{}}
}

func (ts *TermStore) mk(t *Term) *Term {
	var sb strings.Builder
	sb.WriteString(t.op)
	sb.WriteByte('|')
	sb.WriteString(t.name)
	if t.ival != nil {
		sb.WriteString(t.ival.String())
	}
	sb.WriteByte('|')
	sb.WriteString(string(t.sort))
	for _, a := range t.args {
		fmt.Fprintf(&sb, ",%d", a.id)
	}
	for _, b := range t.binds {
		fmt.Fprintf(&sb, ";%d", b.id)
	}
	for _, p := range t.pats {
		sb.WriteString(";p")
		for _, x := range p {
			fmt.Fprintf(&sb, ",%d", x.id)
		}
	}
	k := sb.String()
	if e, ok := ts.tab[k]; ok {
		return e
	}
	ts.nextID++
	t.id = ts.nextID
	for _, a := range t.args {
		if a.bound {
			t.bound = true
		}
	}
	ts.tab[k] = t
	return t
}

func sanitize(s string) string {
	var sb strings.Builder
	for _, c := range s {
		switch {
		case c >= 'a' && c <= 'z', c >= 'A' && c <= 'Z', c >= '0' && c <= '9', c == '_', c == '.', c == '!', c == '$', c == '@':
			sb.WriteRune(c)
		case c == '#':
			sb.WriteByte('^')
		case c == '*':
			sb.WriteByte('~')
		default:
			sb.WriteByte('_')
		}
	}
	return sb.String()
}

// Const declares (once) and returns a constant of the given sort.
func Const(name string, s Sort) *Term {
	name = sanitize(name)
	if _, ok := TS.decls[name]; !ok {
		TS.decls[name] = fmt.Sprintf("(declare-fun %s () %s)", name, s)
		TS.declOrder = append(TS.declOrder, name)
	}
	return TS.mk(&Term{op: "const", name: name, sort: s})
}

// Fresh returns a new constant with a unique name derived from hint.
func Fresh(hint string, s Sort) *Term {
	hint = sanitize(hint)
	TS.fresh[hint]++
	return Const(fmt.Sprintf("%s!%d", hint, TS.fresh[hint]), s)
}

// DeclFun declares an uninterpreted function.
func DeclFun(name string, args []Sort, ret Sort) {
	name = sanitize(name)
	if _, ok := TS.decls[name]; ok {
		return
	}
	as := make([]string, len(args))
	for i, a := range args {
		as[i] = string(a)
	}
	TS.decls[name] = fmt.Sprintf("(declare-fun %s (%s) %s)", name, strings.Join(as, " "), ret)
	TS.declOrder = append(TS.declOrder, name)
}

func App(name string, ret Sort, args ...*Term) *Term {
	name = sanitize(name)
	if _, ok := TS.decls[name]; !ok {
		ss := make([]Sort, len(args))
		for i, a := range args {
			ss[i] = a.sort
		}
		DeclFun(name, ss, ret)
	}
	return TS.mk(&Term{op: "app", name: name, args: args, sort: ret})
}

func BoundVar(name string, s Sort) *Term {
	t := TS.mk(&Term{op: "var", name: sanitize(name), sort: s})
	t.bound = true
	return t
}

var bigZero = big.NewInt(0)

func IntBig(v *big.Int) *Term { return TS.mk(&Term{op: "int", ival: new(big.Int).Set(v), sort: SInt}) }
func Int(v int64) *Term       { return IntBig(big.NewInt(v)) }
func Pow2(n uint) *Term       { return IntBig(new(big.Int).Lsh(big.NewInt(1), n)) }

var (
	True  = TS.mk(&Term{op: "true", sort: SBool})
	False = TS.mk(&Term{op: "false", sort: SBool})
)

func Bool(b bool) *Term {
	if b {
		return True
	}
	return False
}

func StrLit(s string) *Term {
	if t, ok := TS.strLits[s]; ok {
		return t
	}
	name := fmt.Sprintf("str!%d!%s", len(TS.strLits), trunc(sanitize(s), 24))
	t := Const(name, SStr)
	TS.strLits[s] = t
	TS.strLitOrder = append(TS.strLitOrder, s)
	return t
}

func trunc(s string, n int) string {
	if len(s) > n {
		return s[:n]
	}
	return s
}

func (t *Term) isInt() bool   { return t.op == "int" }
func (t *Term) isTrue() bool  { return t == True }
func (t *Term) isFalse() bool { return t == False }

func raw(op string, s Sort, args ...*Term) *Term {
	return TS.mk(&Term{op: op, args: args, sort: s})
}

func Not(a *Term) *Term {
	if a.isTrue() {
		return False
	}
	if a.isFalse() {
		return True
	}
	if a.op == "not" {
		return a.args[0]
	}
	return raw("not", SBool, a)
}

func And(as ...*Term) *Term {
	var out []*Term
	seen := map[int]bool{}
	for _, a := range as {
		if a.isFalse() {
			return False
		}
		if a.isTrue() {
			continue
		}
		if a.op == "and" {
			for _, b := range a.args {
				if !seen[b.id] {
					seen[b.id] = true
					out = append(out, b)
				}
			}
			continue
		}
		if !seen[a.id] {
			seen[a.id] = true
			out = append(out, a)
		}
	}
	for _, a := range out {
		if a.op == "not" && seen[a.args[0].id] {
			return False
		}
	}
	if len(out) == 0 {
		return True
	}
	if len(out) == 1 {
		return out[0]
	}
	return raw("and", SBool, out...)
}

func Or(as ...*Term) *Term {
	var out []*Term
	seen := map[int]bool{}
	for _, a := range as {
		if a.isTrue() {
			return True
		}
		if a.isFalse() {
			continue
		}
		if a.op == "or" {
			for _, b := range a.args {
				if !seen[b.id] {
					seen[b.id] = true
					out = append(out, b)
				}
			}
			continue
		}
		if !seen[a.id] {
			seen[a.id] = true
			out = append(out, a)
		}
	}
	for _, a := range out {
		if a.op == "not" && seen[a.args[0].id] {
			return True
		}
	}
	if len(out) == 0 {
		return False
	}
	if len(out) == 1 {
		return out[0]
	}
	return raw("or", SBool, out...)
}

func Implies(a, b *Term) *Term {
	if a.isTrue() {
		return b
	}
	if a.isFalse() || b.isTrue() {
		return True
	}
	if b.isFalse() {
		return Not(a)
	}
	return raw("=>", SBool, a, b)
}

func Iff(a, b *Term) *Term { return Eq(a, b) }

func Ite(c, a, b *Term) *Term {
	if c.isTrue() {
		return a
	}
	if c.isFalse() {
		return b
	}
	if a == b {
		return a
	}
	if a.sort == SBool {
		if a.isTrue() && b.isFalse() {
			return c
		}
		if a.isFalse() && b.isTrue() {
			return Not(c)
		}
		if a.isTrue() {
			return Or(c, b)
		}
		if b.isFalse() {
			return And(c, a)
		}
		if a.isFalse() {
			return And(Not(c), b)
		}
		if b.isTrue() {
			return Or(Not(c), a)
		}
	}
	return raw("ite", a.sort, c, a, b)
}

func Eq(a, b *Term) *Term {
	if a == b {
		return True
	}
	if a.sort != b.sort {
		panic(fmt.Sprintf("Eq sort mismatch: %s:%s vs %s:%s", a, a.sort, b, b.sort))
	}
	if a.isInt() && b.isInt() {
		return Bool(a.ival.Cmp(b.ival) == 0)
	}
	if a.sort == SBool {
		if a.isTrue() {
			return b
		}
		if b.isTrue() {
			return a
		}
		if a.isFalse() {
			return Not(b)
		}
		if b.isFalse() {
			return Not(a)
		}
	}
	if a.sort == SStr && a.op == "const" && b.op == "const" && strings.HasPrefix(a.name, "str!") && strings.HasPrefix(b.name, "str!") {
		return False // distinct literals
	}
	if a.id > b.id {
		a, b = b, a
	}
	return raw("=", SBool, a, b)
}

func Neq(a, b *Term) *Term { return Not(Eq(a, b)) }

func cmp(op string, a, b *Term) *Term {
	if a.isInt() && b.isInt() {
		c := a.ival.Cmp(b.ival)
		switch op {
		case "<":
			return Bool(c < 0)
		case "<=":
			return Bool(c <= 0)
		case ">":
			return Bool(c > 0)
		case ">=":
			return Bool(c >= 0)
		}
	}
	if a == b {
		return Bool(op == "<=" || op == ">=")
	}
	return raw(op, SBool, a, b)
}

func Lt(a, b *Term) *Term { return cmp("<", a, b) }
func Le(a, b *Term) *Term { return cmp("<=", a, b) }
func Gt(a, b *Term) *Term { return cmp("<", b, a) }
func Ge(a, b *Term) *Term { return cmp("<=", b, a) }

func Add(a, b *Term) *Term {
	if a.isInt() && b.isInt() {
		return IntBig(new(big.Int).Add(a.ival, b.ival))
	}
	if a.isInt() && a.ival.Sign() == 0 {
		return b
	}
	if b.isInt() && b.ival.Sign() == 0 {
		return a
	}
	// (x + c1) + c2
	if b.isInt() && a.op == "+" && len(a.args) == 2 && a.args[1].isInt() {
		return Add(a.args[0], IntBig(new(big.Int).Add(a.args[1].ival, b.ival)))
	}
	if a.isInt() {
		a, b = b, a
	}
	return raw("+", SInt, a, b)
}

func Sub(a, b *Term) *Term {
	if a.isInt() && b.isInt() {
		return IntBig(new(big.Int).Sub(a.ival, b.ival))
	}
	if b.isInt() {
		return Add(a, IntBig(new(big.Int).Neg(b.ival)))
	}
	if a == b {
		return Int(0)
	}
	return raw("-", SInt, a, b)
}

func Neg(a *Term) *Term { return Sub(Int(0), a) }

func Mul(a, b *Term) *Term {
	if a.isInt() && b.isInt() {
		return IntBig(new(big.Int).Mul(a.ival, b.ival))
	}
	if a.isInt() {
		a, b = b, a
	}
	if b.isInt() {
		if b.ival.Sign() == 0 {
			return Int(0)
		}
		if b.ival.Cmp(big.NewInt(1)) == 0 {
			return a
		}
	}
	return raw("*", SInt, a, b)
}

// EDiv / EMod are SMT-LIB Euclidean div/mod (used for wrap with positive constant divisor).
func EDiv(a, b *Term) *Term {
	if a.isInt() && b.isInt() && b.ival.Sign() > 0 {
		q, _ := new(big.Int).DivMod(a.ival, b.ival, new(big.Int))
		return IntBig(q)
	}
	return raw("div", SInt, a, b)
}
func EMod(a, b *Term) *Term {
	if a.isInt() && b.isInt() && b.ival.Sign() > 0 {
		_, m := new(big.Int).DivMod(a.ival, b.ival, new(big.Int))
		return IntBig(m)
	}
	return raw("mod", SInt, a, b)
}

// TDiv / TMod: Go truncated division (defined in the prelude).
func TDiv(a, b *Term) *Term {
	if a.isInt() && b.isInt() && b.ival.Sign() != 0 {
		return IntBig(new(big.Int).Quo(a.ival, b.ival))
	}
	return raw("tdiv", SInt, a, b)
}
func TMod(a, b *Term) *Term {
	if a.isInt() && b.isInt() && b.ival.Sign() != 0 {
		return IntBig(new(big.Int).Rem(a.ival, b.ival))
	}
	return raw("tmod", SInt, a, b)
}

// Elt is the index of element i of a slice whose window starts at off. It is an uninterpreted function with the
// axiom elt(a,b) = a+b so that quantifier patterns over slice elements match syntactically (E-matching does not
// work modulo linear arithmetic normalisation).
func Elt(off, i *Term) *Term {
	if off.isInt() && i.isInt() {
		return Add(off, i)
	}
	// normal form: the window base stays the leftmost summand of the offset, the rest moves into the index, so that an
	// element of a sub-slice s[a:b] is written elt(off(s), a+i) and matches quantified facts about s (pattern elt(off(s), k))
	for off.op == "+" && len(off.args) == 2 && !off.args[0].isInt() {
		i = Add(off.args[1], i)
		off = off.args[0]
	}
	return App("elt", SInt, off, i)
}

func Select(arr, idx *Term) *Term {
	_, es, ok := arrayParts(arr.sort)
	if !ok {
		panic("Select on non-array " + string(arr.sort) + " " + arr.String())
	}
	// a read from a merged heap is the merge of the reads: no array-sorted ite reaches the solver from here
	if arr.op == "ite" && len(arr.args) == 3 {
		return Ite(arr.args[0], Select(arr.args[1], idx), Select(arr.args[2], idx))
	}
	// read-over-write simplification
	a := arr
	for a.op == "store" {
		i := a.args[1]
		if i == idx {
			return a.args[2]
		}
		if definitelyDistinct(i, idx) {
			a = a.args[0]
			continue
		}
		break
	}
	return raw("select", es, a, idx)
}

func definitelyDistinct(a, b *Term) bool {
	if a.isInt() && b.isInt() {
		return a.ival.Cmp(b.ival) != 0
	}
	// x+c1 vs x+c2
	ba, ca := splitOffset(a)
	bb, cb := splitOffset(b)
	if ba == bb && ca.Cmp(cb) != 0 {
		return true
	}
	if a.sort == SStr && a.op == "const" && b.op == "const" && a != b && strings.HasPrefix(a.name, "str!") && strings.HasPrefix(b.name, "str!") {
		return true
	}
	// two different allocation sites/instances: fresh references are pairwise distinct by construction (each is above the
	// watermark that covers all earlier ones)
	if a.op == "const" && b.op == "const" && a != b && strings.HasPrefix(a.name, "ref!") && strings.HasPrefix(b.name, "ref!") {
		return true
	}
	return false
}

func splitOffset(t *Term) (*Term, *big.Int) {
	if t.op == "+" && len(t.args) == 2 && t.args[1].isInt() {
		return t.args[0], t.args[1].ival
	}
	return t, bigZero
}

func Store(arr, idx, val *Term) *Term {
	_, es, ok := arrayParts(arr.sort)
	if !ok {
		panic("Store on non-array " + string(arr.sort))
	}
	if es != val.sort {
		panic(fmt.Sprintf("Store sort mismatch: array %s value %s (%s)", arr.sort, val.sort, val))
	}
	if arr.op == "store" && arr.args[1] == idx {
		arr = arr.args[0]
	}
	return raw("store", arr.sort, arr, idx, val)
}

func Forall(vars []*Term, body *Term, pats ...[]*Term) *Term {
	if body.isTrue() {
		return True
	}
	if !body.bound {
		return body
	}
	t := TS.mk(&Term{op: "forall", args: []*Term{body}, sort: SBool, binds: vars, pats: pats})
	t.bound = hasFreeBound(body, vars)
	return t
}

func Exists(vars []*Term, body *Term) *Term {
	if body.isFalse() {
		return False
	}
	if !body.bound {
		return body
	}
	t := TS.mk(&Term{op: "exists", args: []*Term{body}, sort: SBool, binds: vars})
	t.bound = hasFreeBound(body, vars)
	return t
}

func hasFreeBound(t *Term, bound []*Term) bool {
	bs := map[int]bool{}
	for _, b := range bound {
		bs[b.id] = true
	}
	seen := map[int]bool{}
	var rec func(t *Term, bs map[int]bool) bool
	rec = func(t *Term, bs map[int]bool) bool {
		if !t.bound {
			return false
		}
		if t.op == "var" {
			return !bs[t.id]
		}
		if seen[t.id] && len(t.binds) == 0 {
			return false
		}
		seen[t.id] = true
		nbs := bs
		if len(t.binds) > 0 {
			nbs = map[int]bool{}
			for k := range bs {
				nbs[k] = true
			}
			for _, b := range t.binds {
				nbs[b.id] = true
			}
		}
		for _, a := range t.args {
			if rec(a, nbs) {
				return true
			}
		}
		return false
	}
	return rec(t, bs)
}

// Subst replaces terms by id map (used for instantiating bound vars / old values).
func Subst(t *Term, m map[*Term]*Term) *Term {
	cache := map[*Term]*Term{}
	var rec func(t *Term) *Term
	rec = func(t *Term) *Term {
		if r, ok := m[t]; ok {
			return r
		}
		if len(t.args) == 0 {
			return t
		}
		if r, ok := cache[t]; ok {
			return r
		}
		nargs := make([]*Term, len(t.args))
		changed := false
		for i, a := range t.args {
			nargs[i] = rec(a)
			if nargs[i] != a {
				changed = true
			}
		}
		var r *Term
		if !changed {
			r = t
		} else {
			r = rebuild(t, nargs)
		}
		cache[t] = r
		return r
	}
	return rec(t)
}

func rebuild(t *Term, a []*Term) *Term {
	switch t.op {
	case "not":
		return Not(a[0])
	case "and":
		return And(a...)
	case "or":
		return Or(a...)
	case "=>":
		return Implies(a[0], a[1])
	case "ite":
		return Ite(a[0], a[1], a[2])
	case "=":
		return Eq(a[0], a[1])
	case "<":
		return Lt(a[0], a[1])
	case "<=":
		return Le(a[0], a[1])
	case "+":
		return Add(a[0], a[1])
	case "-":
		return Sub(a[0], a[1])
	case "*":
		return Mul(a[0], a[1])
	case "select":
		return Select(a[0], a[1])
	case "store":
		return Store(a[0], a[1], a[2])
	case "forall":
		var pats [][]*Term
		return Forall(t.binds, a[0], pats...)
	case "exists":
		return Exists(t.binds, a[0])
	case "app":
		return TS.mk(&Term{op: "app", name: t.name, args: a, sort: t.sort})
	}
	return TS.mk(&Term{op: t.op, name: t.name, args: a, sort: t.sort})
}

func (t *Term) String() string {
	var sb strings.Builder
	t.write(&sb, nil)
	return sb.String()
}

func (t *Term) write(sb *strings.Builder, named map[int]string) {
	if named != nil {
		if n, ok := named[t.id]; ok {
			sb.WriteString(n)
			return
		}
	}
	switch t.op {
	case "const", "var":
		sb.WriteString(t.name)
	case "int":
		if t.ival.Sign() < 0 {
			sb.WriteString("(- ")
			sb.WriteString(new(big.Int).Neg(t.ival).String())
			sb.WriteString(")")
		} else {
			sb.WriteString(t.ival.String())
		}
	case "true", "false":
		sb.WriteString(t.op)
	case "constarr":
		sb.WriteString("((as const " + string(t.sort) + ") ")
		t.args[0].write(sb, named)
		sb.WriteString(")")
	case "forall", "exists":
		sb.WriteString("(" + t.op + " (")
		for _, b := range t.binds {
			fmt.Fprintf(sb, "(%s %s)", b.name, b.sort)
		}
		sb.WriteString(") ")
		if len(t.pats) > 0 {
			sb.WriteString("(! ")
		}
		t.args[0].write(sb, named)
		if len(t.pats) > 0 {
			fmt.Fprintf(sb, " :qid %s_%d", strings.ReplaceAll(t.binds[0].name, "!", "_"), t.id)
			for _, p := range t.pats {
				sb.WriteString(" :pattern (")
				for i, x := range p {
					if i > 0 {
						sb.WriteByte(' ')
					}
					x.write(sb, named)
				}
				sb.WriteString(")")
			}
			sb.WriteString(")")
		}
		sb.WriteString(")")
	case "app":
		if len(t.args) == 0 {
			sb.WriteString(t.name)
			return
		}
		sb.WriteString("(" + t.name)
		for _, a := range t.args {
			sb.WriteByte(' ')
			a.write(sb, named)
		}
		sb.WriteString(")")
	default:
		sb.WriteString("(" + t.op)
		for _, a := range t.args {
			sb.WriteByte(' ')
			a.write(sb, named)
		}
		sb.WriteString(")")
	}
}

const prelude = `(define-fun tdiv ((a Int) (b Int)) Int (ite (>= a 0) (ite (> b 0) (div a b) (- (div a (- b)))) (ite (> b 0) (- (div (- a) b)) (div (- a) (- b)))))
(define-fun tmod ((a Int) (b Int)) Int (- a (* b (tdiv a b))))
`

// Script renders an SMT-LIB script checking satisfiability of the conjunction of asserts.
func Script(asserts []*Term, getModel bool) string {
	var sb strings.Builder
	sb.WriteString("(set-option :produce-models true)\n(set-logic ALL)\n")
	sb.WriteString("(declare-sort Str 0)\n")
	sb.WriteString("(declare-fun slen (Str) Int)\n")
	sb.WriteString(prelude)
	// reachable nodes, refcounts
	refc := map[int]int{}
	var order []*Term
	seen := map[int]bool{}
	usedNames := map[string]bool{}
	var visit func(t *Term)
	visit = func(t *Term) {
		refc[t.id]++
		if seen[t.id] {
			return
		}
		seen[t.id] = true
		if t.op == "const" || t.op == "app" {
			usedNames[t.name] = true
		}
		for _, a := range t.args {
			visit(a)
		}
		for _, p := range t.pats {
			for _, x := range p {
				visit(x)
			}
		}
		order = append(order, t)
	}
	for _, a := range asserts {
		visit(a)
	}
	usedNames["slen"] = false
	eltUsed := usedNames["elt"]
	for _, n := range TS.declOrder {
		if usedNames[n] {
			sb.WriteString(TS.decls[n])
			sb.WriteByte('\n')
		}
	}
	if eltUsed {
		sb.WriteString("(assert (forall ((a Int) (b Int)) (! (= (elt a b) (+ a b)) :pattern ((elt a b)))))\n")
	}
	// string literal facts
	var lits []string
	for _, s := range TS.strLitOrder {
		t := TS.strLits[s]
		if usedNames[t.name] {
			lits = append(lits, t.name)
			fmt.Fprintf(&sb, "(assert (= (slen %s) %d))\n", t.name, len(s))
		}
	}
	if e, ok := TS.strLits[""]; ok && usedNames[e.name] {
		fmt.Fprintf(&sb, "(assert (forall ((s Str)) (! (=> (= (slen s) 0) (= s %s)) :pattern ((slen s)))))\n", e.name)
	}
	if len(lits) > 1 {
		sort.Strings(lits)
		fmt.Fprintf(&sb, "(assert (distinct %s))\n", strings.Join(lits, " "))
	}
	named := map[int]string{}
	for _, t := range order {
		if len(t.args) == 0 || t.bound || refc[t.id] < 2 {
			continue
		}
		n := fmt.Sprintf("$n%d", t.id)
		sb.WriteString("(define-fun " + n + " () " + string(t.sort) + " ")
		t.write(&sb, named)
		sb.WriteString(")\n")
		named[t.id] = n
	}
	for _, a := range asserts {
		sb.WriteString("(assert ")
		a.write(&sb, named)
		sb.WriteString(")\n")
	}
	sb.WriteString("(check-sat)\n")
	if getModel {
		sb.WriteString("(get-model)\n")
	}
	return sb.String()
}
