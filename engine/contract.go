package main

// Contract files: //@ comment blocks. See DESIGN.md appendix B.

import (
	"fmt"
	"os"
	"path/filepath"
	"regexp"
	"strconv"
	"strings"

	"golang.org/x/tools/go/ssa"
)

type Expr struct {
	Op   string // id int str true false nil call field index slice unary bin forall exists cond old in star
	Name string
	Args []*Expr
	Typ  string
	Text string
}

type Clause struct {
	Kind   string // requires ensures invariant decreases modifies
	IsLoop bool
	Loop   int
	Props  []string
	Expr   *Expr
	Exprs  []*Expr // modifies list
	Text   string
	File   string
	Line   int
	heldLock *Expr
}

type GhostDecl struct {
	Scope string
	Name string
	Typ  string
	Init *Expr
	Quiet bool // `quiet`: calls whose target is unknown are assumed not to change it (only contracts naming it do); listed
}

type FuncContract struct {
	DeferredFuncs bool // `deferred`: func-typed arguments are not called before the callee returns (timers, registrations)
	AutoVolatile bool // synthesized: the function is verified only because it writes a volatile field
	Key        string
	Header     string
	RecvName   string
	ParamNames []string
	ResultNames []string
	Clauses    []*Clause
	Props      []string
	Terminates bool
	NoInline   bool
	Pure       bool
	Concurrent bool
	Trusted    bool // external assumption (spec file)
	TaggedOnly bool // `taggedonly`: only obligations carrying an explicit property tag count (run-time safety of the function is not claimed)
	AllCallers bool // `allcallers`: every module function that calls it is verified for its preconditions
	AutoCallerOf string // synthesized: the function is verified only because it calls the `allcallers` function named here
	Captures   []*Clause // `captures e`: facts about captured variables, proved where the closure is created, assumed at its entry
	ArithMath  bool // integer + - * treated as mathematical (no wrap-around) in this function: a listed assumption
	File       string
	Line       int
	Entry      []*Expr // "entry" ghost assignments (unused yet)
	Iterates   []*Iterates
	Decreases  *Clause
	GhostEntry []*GhostAssign
	CallbackInvs []*SiteAssert // invariant of a callback loop run by an unknown callee (Match = callee method/function name)
	SiteAsserts []*SiteAssert
	AssumeLocked []*Clause // protocol assumptions evaluated right after the first guarded Lock (listed as assumptions)
}

// SiteAssert: `assert[Cxx] after "source text" : expr` -- an assertion over the locals in scope, checked right after the
// last instruction of the first source line (in the function) that contains the text.
type SiteAssert struct {
	Match string
	Expr  *Expr
	Text  string
	Props []string
	After bool
	Assume bool // assumed instead of proved (always listed)
	Nth   int  // `"text"#N`: only the N-th matching source line of the function (0: every matching line)
}

type GhostAssign struct {
	LHS  *Expr
	RHS  *Expr
	Text string
}

type Iterates struct {
	Param string
	Vars  []string
	Where *Expr
	Text  string
	Props []string
}

func (fc *FuncContract) hasCallContract() bool {
	for _, c := range fc.Clauses {
		if !c.IsLoop && (c.Kind == "requires" || c.Kind == "ensures" || c.Kind == "modifies") {
			return true
		}
	}
	return fc.Pure
}

type TypeContract struct {
	Key    string
	GuardProps map[string][]string // mutex field -> property tags of the lock-discipline obligations
	Guards map[string][]string // mutex field -> guarded fields
	Invs   map[string][]*Clause // mutex field -> invariants
	Ghost  []GhostDecl
	File   string
	// Volatile fields: code outside the verified functions (a foreign callee holding the object behind an interface)
	// may change the field at any call that leaves the module, but only as the two-state relation allows; every module
	// function storing to the field must respect the relation too.
	Volatile []*VolatileSpec
}

type VolatileSpec struct {
	Field string
	Rel   *Expr
	Text  string
	Props []string
}

type Axiom struct {
	Props []string
	Scope string
	Expr  *Expr
	Text  string
}

type PureFn struct {
	Name   string
	Params []string
	PTypes []string
	Ret    string
	Body   *Expr
	Uninterp bool
}

type ContractSet struct {
	byName map[string]*FuncContract
	types  map[string]*TypeContract
	pures  map[string]*PureFn
	ghosts map[string]*GhostDecl
	axioms []*Axiom
	files  []string
	order  []string
}

func NewContractSet() *ContractSet {
	return &ContractSet{byName: map[string]*FuncContract{}, types: map[string]*TypeContract{}, pures: map[string]*PureFn{}, ghosts: map[string]*GhostDecl{}}
}

// curScope is the short package path of the function under verification: contracts for foreign functions and ghost
// variables declared in a package's contract file apply only while verifying that package.
var curScope = ""

func (cs *ContractSet) get(key string) *FuncContract {
	if fc, ok := cs.byName[curScope+"::"+key]; ok {
		return fc
	}
	return cs.byName[key]
}

// isGhostGlobal: name is a ghost global declared in the current scope (or unscoped).
func (cs *ContractSet) isGhostGlobal(name string) bool {
	if _, ok := cs.ghosts[curScope+"::"+name]; ok {
		return true
	}
	if _, ok := cs.ghosts[name]; ok {
		return true
	}
	for k := range cs.ghosts {
		if strings.HasSuffix(k, "::"+name) {
			return true
		}
	}
	return false
}

// ghostQuiet: the ghost global name of package scope is declared `quiet`.
func (cs *ContractSet) ghostQuiet(name, scope string) bool {
	g, ok := cs.ghosts[scope+"::"+name]
	return ok && g.Quiet
}

// ghostInScope: a ghost global called name is declared in package scope (short path).
func (cs *ContractSet) ghostInScope(name, scope string) bool {
	_, ok := cs.ghosts[scope+"::"+name]
	return ok
}

// getIn / forFuncIn: contract lookup as seen from package `scope` (write summaries of a function are computed with the
// assumed contracts of the function's own package, whatever package is being verified).
func (cs *ContractSet) getIn(scope, key string) *FuncContract {
	if fc, ok := cs.byName[scope+"::"+key]; ok {
		return fc
	}
	return cs.byName[key]
}

func (cs *ContractSet) forFuncIn(scope string, fn *ssa.Function) *FuncContract {
	if fn == nil {
		return nil
	}
	if fc := cs.getIn(scope, funcRef(fn)); fc != nil {
		return fc
	}
	if o := fn.Origin(); o != nil && o != fn {
		return cs.getIn(scope, funcRef(o))
	}
	return nil
}

func (cs *ContractSet) forFunc(fn *ssa.Function) *FuncContract {
	if fn == nil {
		return nil
	}
	if fc := cs.get(funcRef(fn)); fc != nil {
		return fc
	}
	if o := fn.Origin(); o != nil && o != fn {
		return cs.get(funcRef(o))
	}
	return nil
}

var clauseKW = map[string]bool{"func": true, "type": true, "pure": true, "uf": true, "lemma": true, "ghost": true, "requires": true, "ensures": true,
	"modifies": true, "decreases": true, "loop": true, "iterates": true, "concurrent": true, "props": true, "terminates": true,
	"noinline": true, "callbackinv": true, "assert": true, "assume": true, "axiom": true, "assumelocked": true, "ghostentry": true, "callback": true, "arith": true, "nonnil": true, "volatile": true, "deferred": true, "guards": true, "invariant": true, "latch": true, "params": true, "results": true, "trusted": true, "purefn": true, "allcallers": true, "captures": true, "taggedonly": true}

var tagRe = regexp.MustCompile(`^(\w+)\[([A-Z0-9, ]+)\]`)

// LoadContractFile parses one file; pkgKey is the short package path used as key prefix ("" for external spec files where names are fully qualified).
func (cs *ContractSet) LoadContractFile(path string, pkgKey string) error {
	b, err := os.ReadFile(path)
	if err != nil {
		return err
	}
	cs.files = append(cs.files, path)
	type rawClause struct {
		text string
		line int
	}
	var raws []rawClause
	for i, line := range strings.Split(string(b), "\n") {
		t := strings.TrimSpace(line)
		var body string
		if strings.HasPrefix(t, "//@") {
			body = strings.TrimSpace(t[3:])
		} else if strings.HasSuffix(path, ".spec") {
			if strings.HasPrefix(t, "#") || strings.HasPrefix(t, "//") {
				continue
			}
			body = t
		} else {
			continue
		}
		if body == "" {
			continue
		}
		// strip trailing // comments
		if k := strings.Index(body, " // "); k >= 0 {
			body = strings.TrimSpace(body[:k])
		}
		first := body
		if k := strings.IndexAny(body, " \t["); k >= 0 {
			first = body[:k]
		}
		if clauseKW[first] || len(raws) == 0 {
			raws = append(raws, rawClause{body, i + 1})
		} else {
			raws[len(raws)-1].text += " " + body
		}
	}
	var curF *FuncContract
	var curT *TypeContract
	for _, rc := range raws {
		text := rc.text
		kw := text
		rest := ""
		if k := strings.IndexAny(text, " \t"); k >= 0 {
			kw, rest = text[:k], strings.TrimSpace(text[k+1:])
		}
		var props []string
		if m := tagRe.FindStringSubmatch(kw + " "); m != nil {
			// unreachable: tags contain no spaces normally
			_ = m
		}
		if k := strings.Index(kw, "["); k >= 0 && strings.HasSuffix(kw, "]") {
			for _, p := range strings.Split(kw[k+1:len(kw)-1], ",") {
				props = append(props, strings.TrimSpace(p))
			}
			kw = kw[:k]
		}
		fail := func(format string, a ...interface{}) error {
			return fmt.Errorf("%s:%d: %s", path, rc.line, fmt.Sprintf(format, a...))
		}
		switch kw {
		case "func":
			key, recv, err := parseFuncHeader(rest, pkgKey)
			if err != nil {
				return fail("%v", err)
			}
			if pkgKey != "" && !strings.HasPrefix(key, pkgKey+".") {
				// a contract for a function of another package (external dependency, interface): scoped to this package
				key = pkgKey + "::" + key
			}
			curF = &FuncContract{Key: key, Header: rest, RecvName: recv, File: path, Line: rc.line, Trusted: strings.HasSuffix(path, ".spec")}
			curT = nil
			if _, dup := cs.byName[key]; dup {
				return fail("duplicate contract for %s", key)
			}
			cs.byName[key] = curF
			cs.order = append(cs.order, key)
		case "type":
			key := rest
			if pkgKey != "" && !strings.Contains(rest, ".") {
				key = pkgKey + "." + rest
			}
			curT = cs.types[key]
			if curT == nil {
				curT = &TypeContract{Key: key, Guards: map[string][]string{}, GuardProps: map[string][]string{}, Invs: map[string][]*Clause{}, File: path}
				cs.types[key] = curT
			}
			curF = nil
		case "pure", "uf":
			pf, err := parsePure(rest, kw == "uf")
			if err != nil {
				return fail("%v", err)
			}
			cs.pures[pf.Name] = pf
		case "ghost":
			parts := strings.SplitN(rest, "=", 2)
			fs := strings.Fields(parts[0])
			if len(fs) < 2 {
				return fail("ghost needs name and type")
			}
			quiet := false
			if len(fs) > 2 && fs[len(fs)-1] == "quiet" {
				quiet = true
				fs = fs[:len(fs)-1]
			}
			gd := &GhostDecl{Name: fs[0], Typ: strings.Join(fs[1:], " "), Scope: pkgKey, Quiet: quiet}
			if len(parts) == 2 {
				e, err := ParseExpr(parts[1])
				if err != nil {
					return fail("%v", err)
				}
				gd.Init = e
			}
			if curT != nil {
				curT.Ghost = append(curT.Ghost, *gd)
			} else {
				cs.ghosts[pkgKey+"::"+gd.Name] = gd
			}
		case "requires", "ensures":
			if curF == nil {
				return fail("%s outside func block", kw)
			}
			e, err := ParseExpr(rest)
			if err != nil {
				return fail("%v", err)
			}
			c := &Clause{Kind: kw, Props: props, Expr: e, Text: rest, File: path, Line: rc.line}
			if kw == "requires" && e.Op == "call" && e.Name == "held" && len(e.Args) == 1 {
				c.heldLock = e.Args[0]
			}
			curF.Clauses = append(curF.Clauses, c)
		case "modifies":
			if curF == nil {
				return fail("modifies outside func block")
			}
			c := &Clause{Kind: "modifies", Text: rest, File: path, Line: rc.line}
			if strings.TrimSpace(rest) != "nothing" {
				for _, part := range splitTop(rest, ',') {
					e, err := ParseExpr(part)
					if err != nil {
						return fail("%v", err)
					}
					c.Exprs = append(c.Exprs, e)
				}
			}
			curF.Clauses = append(curF.Clauses, c)
		case "decreases":
			if curF == nil {
				return fail("decreases outside func block")
			}
			e, err := ParseExpr(rest)
			if err != nil {
				return fail("%v", err)
			}
			curF.Decreases = &Clause{Kind: "decreases", Expr: e, Text: rest, File: path, Line: rc.line, Props: props}
			curF.Terminates = true
		case "loop":
			if curF == nil {
				return fail("loop outside func block")
			}
			fs := strings.SplitN(rest, " ", 3)
			if len(fs) < 3 {
				return fail("loop clause: loop <n> invariant|decreases|modifies <expr>")
			}
			n, err := strconv.Atoi(fs[0])
			if err != nil {
				return fail("loop ordinal: %v", err)
			}
			k := fs[1]
			var lp []string
			if i := strings.Index(k, "["); i >= 0 && strings.HasSuffix(k, "]") {
				for _, p := range strings.Split(k[i+1:len(k)-1], ",") {
					lp = append(lp, strings.TrimSpace(p))
				}
				k = k[:i]
			}
			c := &Clause{Kind: k, IsLoop: true, Loop: n, Props: lp, Text: fs[2], File: path, Line: rc.line}
			if k == "modifies" {
				for _, part := range splitTop(fs[2], ',') {
					e, err := ParseExpr(part)
					if err != nil {
						return fail("%v", err)
					}
					c.Exprs = append(c.Exprs, e)
				}
			} else if k == "invariant" || k == "decreases" || k == "step" {
				e, err := ParseExpr(fs[2])
				if err != nil {
					return fail("%v", err)
				}
				c.Expr = e
			} else {
				return fail("unknown loop clause %q", k)
			}
			curF.Clauses = append(curF.Clauses, c)
		case "iterates":
			if curF == nil {
				return fail("iterates outside func block")
			}
			// iterates <param> over <v1,v2> where <expr>
			m := regexp.MustCompile(`^(\w+)\s+over\s+([\w, ]+?)\s+where\s+(.*)$`).FindStringSubmatch(rest)
			if m == nil {
				return fail("iterates syntax")
			}
			e, err := ParseExpr(m[3])
			if err != nil {
				return fail("%v", err)
			}
			var vs []string
			for _, x := range strings.Split(m[2], ",") {
				vs = append(vs, strings.TrimSpace(x))
			}
			curF.Iterates = append(curF.Iterates, &Iterates{Param: m[1], Vars: vs, Where: e, Text: rest, Props: props})
		case "props":
			if curF == nil {
				return fail("props outside func block")
			}
			for _, p := range strings.Split(rest, ",") {
				p = strings.TrimSpace(p)
				if !regexp.MustCompile(`^C\d\d$`).MatchString(p) {
					return fail("props: %q is not a property id", p)
				}
				curF.Props = append(curF.Props, p)
			}
		case "terminates":
			if curF != nil {
				curF.Terminates = true
			}
		case "deferred":
			if curF != nil {
				curF.DeferredFuncs = true
			}
		case "axiom":
			e, err := ParseExpr(rest)
			if err != nil {
				return fail("%v", err)
			}
			cs.axioms = append(cs.axioms, &Axiom{Scope: pkgKey, Expr: e, Text: rest, Props: props})
		case "callbackinv":
			// callbackinv "<callee name>" : expr -- holds before the call, is preserved by every run of the closure passed
			// to it (the closure's own contract must require and ensure it), hence holds after the call
			if curF == nil {
				return fail("callbackinv outside func block")
			}
			m := regexp.MustCompile(`^"((?:[^"\\]|\\.)*)"\s*:\s*(.*)$`).FindStringSubmatch(rest)
			if m == nil {
				return fail(`callbackinv "<callee>" : <expr>`)
			}
			e, err := ParseExpr(m[2])
			if err != nil {
				return fail("%v", err)
			}
			curF.CallbackInvs = append(curF.CallbackInvs, &SiteAssert{Match: m[1], Expr: e, Text: m[2], Props: props})
		case "assert", "assume":
			if curF == nil {
				return fail("assert outside func block")
			}
			m := regexp.MustCompile(`^(after|before)\s+"((?:[^"\\]|\\.)*)"(?:#(\d+))?\s*:\s*(.*)$`).FindStringSubmatch(rest)
			if m == nil {
				return fail(`assert after|before "<source text>"[#N] : <expr>`)
			}
			e, err := ParseExpr(m[4])
			if err != nil {
				return fail("%v", err)
			}
			txt, _ := strconv.Unquote(`"` + m[2] + `"`)
			nth := 0
			if m[3] != "" {
				nth, _ = strconv.Atoi(m[3])
			}
			curF.SiteAsserts = append(curF.SiteAsserts, &SiteAssert{Match: txt, Expr: e, Text: m[4], Props: props, After: m[1] == "after", Assume: kw == "assume", Nth: nth})
		case "assumelocked":
			if curF == nil {
				return fail("assumelocked outside func block")
			}
			e, err := ParseExpr(rest)
			if err != nil {
				return fail("%v", err)
			}
			curF.AssumeLocked = append(curF.AssumeLocked, &Clause{Kind: "assumelocked", Expr: e, Text: rest, File: path, Line: rc.line})
		case "ghostentry":
			// ghostentry <ghost lvalue> = <expr> : ghost assignment executed when the function body starts
			if curF == nil {
				return fail("ghostentry outside func block")
			}
			parts := strings.SplitN(rest, "=", 2)
			if len(parts) != 2 {
				return fail("ghostentry <lhs> = <expr>")
			}
			l, err := ParseExpr(parts[0])
			if err != nil {
				return fail("%v", err)
			}
			r, err := ParseExpr(parts[1])
			if err != nil {
				return fail("%v", err)
			}
			curF.GhostEntry = append(curF.GhostEntry, &GhostAssign{LHS: l, RHS: r, Text: rest})
		case "callback":
			// callback <field> : contract of calls through the func-typed field of the current type (receiver = self)
			if curT == nil {
				return fail("callback outside type block")
			}
			key := curT.Key + "." + strings.TrimSpace(rest) + "#callback"
			curF = &FuncContract{Key: key, Header: "callback " + rest, RecvName: "self", File: path, Line: rc.line, Trusted: true}
			cs.byName[key] = curF
			cs.order = append(cs.order, key)
		case "arith":
			if curF != nil && strings.TrimSpace(rest) == "math" {
				curF.ArithMath = true
			}
		case "noinline":
			if curF != nil {
				curF.NoInline = true
			}
		case "purefn":
			if curF != nil {
				curF.Pure = true
			}
		case "concurrent":
			if curF != nil {
				curF.Concurrent = true
			}
		case "trusted":
			if curF != nil {
				curF.Trusted = true
			}
		case "allcallers":
			if curF != nil {
				curF.AllCallers = true
			}
		case "taggedonly":
			if curF != nil {
				curF.TaggedOnly = true
			}
		case "captures":
			if curF == nil {
				return fail("captures outside func block")
			}
			e, err := ParseExpr(rest)
			if err != nil {
				return fail("%v", err)
			}
			curF.Captures = append(curF.Captures, &Clause{Kind: "captures", Props: props, Expr: e, Text: rest, File: path, Line: rc.line})
		case "params":
			if curF != nil {
				for _, p := range strings.Split(rest, ",") {
					curF.ParamNames = append(curF.ParamNames, strings.TrimSpace(p))
				}
			}
		case "results":
			if curF != nil {
				for _, p := range strings.Split(rest, ",") {
					curF.ResultNames = append(curF.ResultNames, strings.TrimSpace(p))
				}
			}
		case "volatile":
			// volatile <field> : <two-state relation over self.<field> and old(self.<field>)>
			if curT == nil {
				return fail("volatile outside type block")
			}
			parts := strings.SplitN(rest, ":", 2)
			if len(parts) != 2 {
				return fail("volatile <field> : <relation>")
			}
			e, err := ParseExpr(strings.TrimSpace(parts[1]))
			if err != nil {
				return fail("%v", err)
			}
			curT.Volatile = append(curT.Volatile, &VolatileSpec{Field: strings.TrimSpace(parts[0]), Rel: e, Text: strings.TrimSpace(parts[1]), Props: props})
		case "nonnil":
			if curT == nil {
				return fail("nonnil outside type block")
			}
			nonNilIfaces[curT.Key] = true
		case "guards":
			if curT == nil {
				return fail("guards outside type block")
			}
			parts := strings.SplitN(rest, ":", 2)
			if len(parts) != 2 {
				return fail("guards <mu>: <fields>")
			}
			mu := strings.TrimSpace(parts[0])
			for _, f := range strings.Split(parts[1], ",") {
				curT.Guards[mu] = append(curT.Guards[mu], strings.TrimSpace(f))
			}
			curT.GuardProps[mu] = append(curT.GuardProps[mu], props...)
		case "invariant":
			if curT == nil {
				return fail("invariant outside type block")
			}
			parts := strings.SplitN(rest, ":", 2)
			if len(parts) != 2 {
				return fail("invariant <mu>: <expr>")
			}
			mu := strings.TrimSpace(parts[0])
			e, err := ParseExpr(parts[1])
			if err != nil {
				return fail("%v", err)
			}
			curT.Invs[mu] = append(curT.Invs[mu], &Clause{Kind: "invariant", Props: props, Expr: e, Text: strings.TrimSpace(parts[1]), File: path, Line: rc.line})
		default:
			return fail("unknown clause keyword %q", kw)
		}
	}
	return nil
}

func splitTop(s string, sep byte) []string {
	var out []string
	depth := 0
	start := 0
	for i := 0; i < len(s); i++ {
		switch s[i] {
		case '(', '[':
			depth++
		case ')', ']':
			depth--
		default:
			if s[i] == sep && depth == 0 {
				out = append(out, strings.TrimSpace(s[start:i]))
				start = i + 1
			}
		}
	}
	out = append(out, strings.TrimSpace(s[start:]))
	return out
}

var hdrRecvRe = regexp.MustCompile(`^\(\s*(\w+)?\s*(\*?)\s*([\w./\-\[\], ]+)\s*\)\s*([\w$]+)$`)

func parseFuncHeader(h string, pkgKey string) (key, recv string, err error) {
	h = strings.TrimSpace(h)
	if strings.HasPrefix(h, "interface ") {
		return strings.TrimSpace(h[len("interface "):]), "self", nil
	}
	if !strings.HasPrefix(h, "(") && !strings.Contains(h, " ") {
		if pkgKey != "" && !strings.Contains(strings.SplitN(h, "$", 2)[0], ".") {
			return pkgKey + "." + h, "", nil
		}
		return h, "", nil
	}
	if m := hdrRecvRe.FindStringSubmatch(h); m != nil {
		recv = m[1]
		tn := m[3]
		// strip type params
		if k := strings.Index(tn, "["); k >= 0 {
			tn = tn[:k]
		}
		pk := pkgKey
		if k := strings.LastIndex(tn, "."); k >= 0 {
			pk = tn[:k]
			tn = tn[k+1:]
		}
		return pk + ".(" + m[2] + tn + ")." + m[4], recv, nil
	}
	if strings.ContainsAny(h, " ()") {
		return "", "", fmt.Errorf("bad func header %q", h)
	}
	if pkgKey != "" && !strings.Contains(strings.SplitN(h, "$", 2)[0], ".") {
		return pkgKey + "." + h, "", nil
	}
	return h, "", nil
}

func parsePure(s string, uninterp bool) (*PureFn, error) {
	// name(p1 T1, p2 T2) T = expr     |  uf name(T1, T2) T
	op := strings.Index(s, "(")
	if op < 0 {
		return nil, fmt.Errorf("pure: missing (")
	}
	name := strings.TrimSpace(s[:op])
	depth := 0
	cl := -1
	for i := op; i < len(s); i++ {
		if s[i] == '(' {
			depth++
		} else if s[i] == ')' {
			depth--
			if depth == 0 {
				cl = i
				break
			}
		}
	}
	if cl < 0 {
		return nil, fmt.Errorf("pure: missing )")
	}
	pf := &PureFn{Name: name, Uninterp: uninterp}
	ps := strings.TrimSpace(s[op+1 : cl])
	if ps != "" {
		for _, p := range splitTop(ps, ',') {
			fs := strings.Fields(p)
			if uninterp && len(fs) == 1 {
				pf.Params = append(pf.Params, fmt.Sprintf("a%d", len(pf.Params)))
				pf.PTypes = append(pf.PTypes, fs[0])
				continue
			}
			if len(fs) < 2 {
				return nil, fmt.Errorf("pure: param %q needs name and type", p)
			}
			pf.Params = append(pf.Params, fs[0])
			pf.PTypes = append(pf.PTypes, strings.Join(fs[1:], " "))
		}
	}
	rest := strings.TrimSpace(s[cl+1:])
	if uninterp {
		pf.Ret = rest
		return pf, nil
	}
	parts := strings.SplitN(rest, "=", 2)
	if len(parts) != 2 {
		return nil, fmt.Errorf("pure: missing = body")
	}
	pf.Ret = strings.TrimSpace(parts[0])
	e, err := ParseExpr(parts[1])
	if err != nil {
		return nil, err
	}
	pf.Body = e
	return pf, nil
}

// FindContractFiles returns verif_contracts.go files under root.
func FindContractFiles(root string) []string {
	var out []string
	filepath.Walk(root, func(p string, info os.FileInfo, err error) error {
		if err != nil {
			return nil
		}
		if info.IsDir() && (info.Name() == ".git" || info.Name() == "vendor") {
			return filepath.SkipDir
		}
		if !info.IsDir() && (info.Name() == "verif_contracts.go") {
			out = append(out, p)
		}
		return nil
	})
	return out
}

// ---------- expression parser (Pratt) ----------

type tok struct {
	k string // id int str op eof
	s string
}

func lex(s string) ([]tok, error) {
	var out []tok
	i := 0
	for i < len(s) {
		c := s[i]
		switch {
		case c == ' ' || c == '\t' || c == '\n':
			i++
		case c >= '0' && c <= '9':
			j := i
			for j < len(s) && (s[j] >= '0' && s[j] <= '9' || s[j] == 'x' || s[j] == '_' || (s[j] >= 'a' && s[j] <= 'f') || (s[j] >= 'A' && s[j] <= 'F')) {
				j++
			}
			out = append(out, tok{"int", strings.ReplaceAll(s[i:j], "_", "")})
			i = j
		case c == '_' || c >= 'a' && c <= 'z' || c >= 'A' && c <= 'Z':
			j := i
			for j < len(s) && (s[j] == '_' || s[j] >= 'a' && s[j] <= 'z' || s[j] >= 'A' && s[j] <= 'Z' || s[j] >= '0' && s[j] <= '9') {
				j++
			}
			out = append(out, tok{"id", s[i:j]})
			i = j
		case c == '"':
			j := i + 1
			for j < len(s) && s[j] != '"' {
				if s[j] == '\\' {
					j++
				}
				j++
			}
			if j >= len(s) {
				return nil, fmt.Errorf("unterminated string in %q", s)
			}
			str, err := strconv.Unquote(s[i : j+1])
			if err != nil {
				return nil, err
			}
			out = append(out, tok{"str", str})
			i = j + 1
		default:
			ops := []string{"<==>", "==>", "::", "<<", ">>", "<=", ">=", "==", "!=", "&&", "||", "+", "-", "*", "/", "%", "<", ">", "!", "(", ")", "[", "]", ".", ",", "?", ":", "&", "|", "^"}
			matched := false
			for _, o := range ops {
				if strings.HasPrefix(s[i:], o) {
					out = append(out, tok{"op", o})
					i += len(o)
					matched = true
					break
				}
			}
			if !matched {
				return nil, fmt.Errorf("unexpected character %q in %q", c, s)
			}
		}
	}
	out = append(out, tok{"eof", ""})
	return out, nil
}

type parser struct {
	toks []tok
	p    int
	src  string
}

func ParseExpr(s string) (*Expr, error) {
	toks, err := lex(s)
	if err != nil {
		return nil, err
	}
	ps := &parser{toks: toks, src: s}
	var e *Expr
	func() {
		defer func() {
			if r := recover(); r != nil {
				if pe, ok := r.(parseErr); ok {
					err = fmt.Errorf("%s in %q", string(pe), s)
					return
				}
				panic(r)
			}
		}()
		e = ps.expr(0)
		if ps.peek().k != "eof" {
			panic(parseErr("unexpected " + ps.peek().s))
		}
	}()
	if e != nil {
		e.Text = strings.TrimSpace(s)
	}
	return e, err
}

type parseErr string

func (p *parser) peek() tok { return p.toks[p.p] }
func (p *parser) next() tok { t := p.toks[p.p]; p.p++; return t }
func (p *parser) isOp(s string) bool {
	t := p.peek()
	return t.k == "op" && t.s == s
}
func (p *parser) expect(s string) {
	if !p.isOp(s) {
		panic(parseErr("expected " + s + " got " + p.peek().s))
	}
	p.next()
}

var binPrec = map[string]int{"<==>": 1, "==>": 2, "||": 4, "&&": 5, "==": 6, "!=": 6, "<": 6, "<=": 6, ">": 6, ">=": 6, "in": 6,
	"+": 7, "-": 7, "|": 7, "^": 7, "*": 8, "/": 8, "%": 8, "<<": 8, ">>": 8, "&": 8}

func (p *parser) expr(minPrec int) *Expr {
	lhs := p.unary()
	for {
		t := p.peek()
		op := t.s
		if t.k == "id" && t.s == "in" {
			op = "in"
		} else if t.k != "op" {
			break
		}
		if op == "?" && minPrec <= 3 {
			p.next()
			a := p.expr(0)
			p.expect(":")
			b := p.expr(3)
			lhs = &Expr{Op: "cond", Args: []*Expr{lhs, a, b}}
			continue
		}
		prec, ok := binPrec[op]
		if !ok || prec < minPrec {
			break
		}
		p.next()
		var rhs *Expr
		if op == "==>" {
			rhs = p.expr(prec) // right assoc
		} else {
			rhs = p.expr(prec + 1)
		}
		if op == "in" {
			lhs = &Expr{Op: "in", Args: []*Expr{lhs, rhs}}
		} else {
			lhs = &Expr{Op: "bin", Name: op, Args: []*Expr{lhs, rhs}}
		}
	}
	return lhs
}

func (p *parser) unary() *Expr {
	t := p.peek()
	if t.k == "op" && (t.s == "!" || t.s == "-") {
		p.next()
		return &Expr{Op: "unary", Name: t.s, Args: []*Expr{p.unary()}}
	}
	if t.k == "id" && (t.s == "forall" || t.s == "exists") {
		p.next()
		var names, typs []string
		for {
			n := p.next()
			if n.k != "id" {
				panic(parseErr("quantifier variable expected"))
			}
			ty := p.typeName()
			names = append(names, n.s)
			typs = append(typs, ty)
			if p.isOp(",") {
				p.next()
				continue
			}
			break
		}
		p.expect("::")
		body := p.expr(0)
		e := body
		for i := len(names) - 1; i >= 0; i-- {
			e = &Expr{Op: t.s, Name: names[i], Typ: typs[i], Args: []*Expr{e}}
		}
		return e
	}
	return p.postfix(p.primary())
}

func (p *parser) typeName() string {
	var sb strings.Builder
	for {
		t := p.peek()
		if t.k == "id" {
			sb.WriteString(t.s)
			p.next()
		} else if t.k == "op" && (t.s == "*" || t.s == "." || t.s == "[" || t.s == "]") {
			sb.WriteString(t.s)
			p.next()
		} else {
			break
		}
		if p.isOp("::") || p.isOp(",") {
			break
		}
	}
	return sb.String()
}

func (p *parser) primary() *Expr {
	t := p.next()
	switch t.k {
	case "int":
		return &Expr{Op: "int", Name: t.s}
	case "str":
		return &Expr{Op: "str", Name: t.s}
	case "id":
		switch t.s {
		case "true", "false", "nil":
			return &Expr{Op: t.s}
		}
		return &Expr{Op: "id", Name: t.s}
	case "op":
		if t.s == "(" {
			e := p.expr(0)
			p.expect(")")
			return &Expr{Op: "paren", Args: []*Expr{e}}
		}
	}
	panic(parseErr("unexpected token " + t.s))
}

func (p *parser) postfix(e *Expr) *Expr {
	for {
		switch {
		case p.isOp("."):
			p.next()
			n := p.next()
			if n.k != "id" {
				panic(parseErr("field name expected"))
			}
			e = &Expr{Op: "field", Name: n.s, Args: []*Expr{e}}
		case p.isOp("("):
			p.next()
			var args []*Expr
			for !p.isOp(")") {
				args = append(args, p.expr(0))
				if p.isOp(",") {
					p.next()
				}
			}
			p.expect(")")
			name := ""
			switch e.Op {
			case "id":
				name = e.Name
			case "field":
				// pkg.Func or method-like spec call
				if e.Args[0].Op == "id" {
					name = e.Args[0].Name + "." + e.Name
				} else {
					// method call syntax x.f(args) -> f(x, args)
					name = e.Name
					args = append([]*Expr{e.Args[0]}, args...)
				}
			default:
				panic(parseErr("call of non-identifier"))
			}
			if name == "old" && len(args) == 1 {
				e = &Expr{Op: "old", Args: args}
			} else {
				e = &Expr{Op: "call", Name: name, Args: args}
			}
		case p.isOp("["):
			p.next()
			if p.isOp("*") {
				p.next()
				p.expect("]")
				e = &Expr{Op: "star", Args: []*Expr{e}}
				continue
			}
			var lo, hi *Expr
			if !p.isOp(":") {
				lo = p.expr(0)
			}
			if p.isOp(":") {
				p.next()
				if !p.isOp("]") {
					hi = p.expr(0)
				}
				p.expect("]")
				e = &Expr{Op: "slice", Args: []*Expr{e, lo, hi}}
			} else {
				p.expect("]")
				e = &Expr{Op: "index", Args: []*Expr{e, lo}}
			}
		default:
			return e
		}
	}
}
