package main

import (
	"encoding/json"
	"fmt"
	"go/token"
	"go/types"
	"os"
	"path/filepath"
	"sort"
	"strings"
	"sync"
	"time"

	"golang.org/x/tools/go/packages"
	"golang.org/x/tools/go/ssa"
	"golang.org/x/tools/go/ssa/ssautil"
)

type Options struct {
	Repo     string
	Verif    string
	Prop     string
	Tier     string
	Seed     int
	OnlyFunc string
	Verbose  bool
	DumpSMT  string
	Timeout  int
	NoEvidence bool
	EmitOpen   bool
	NoReplay   bool
}

type FuncReport struct {
	Name        string   `json:"name"`
	File        string   `json:"file"`
	SSAInstrs   int      `json:"ssa_instructions"`
	Obligations int      `json:"obligations"`
	ByContract  []string `json:"calls_by_contract,omitempty"`
	Inlined     []string `json:"calls_inlined,omitempty"`
	Havoced     []string `json:"calls_havoced_trusted,omitempty"`
	OutOfSubset string   `json:"out_of_subset,omitempty"`
	Notes       []string `json:"imprecision_notes,omitempty"`
	Seconds     float64  `json:"vcgen_seconds"`
}

type moduleInfo struct {
	dir  string // absolute
	path string // module path
}

func repoModules(repo string) []moduleInfo {
	return []moduleInfo{
		{repo, "github.com/containerd/stargz-snapshotter"},
		{filepath.Join(repo, "estargz"), "github.com/containerd/stargz-snapshotter/estargz"},
		{filepath.Join(repo, "cmd"), "github.com/containerd/stargz-snapshotter/cmd"},
		{filepath.Join(repo, "ipfs"), "github.com/containerd/stargz-snapshotter/ipfs"},
	}
}

// moduleFor returns the module containing a repo-relative package dir.
func moduleFor(repo, rel string) moduleInfo {
	mods := repoModules(repo)
	best := mods[0]
	for _, m := range mods[1:] {
		mrel, _ := filepath.Rel(repo, m.dir)
		if rel == mrel || strings.HasPrefix(rel, mrel+"/") {
			best = m
		}
	}
	return best
}

type loaded struct {
	prog  *ssa.Program
	fset  *token.FileSet
	pkgs  []*ssa.Package
	funcs map[string]*ssa.Function
}

func loadModule(mod moduleInfo, patterns []string) (*loaded, error) {
	cfg := &packages.Config{Mode: packages.LoadAllSyntax, Dir: mod.dir, BuildFlags: []string{"-tags=verif"}, Env: append(os.Environ(), "GOFLAGS=-mod=mod", "GOPROXY=off", "GOTOOLCHAIN=local", "PATH=/opt/veriftools/go1.26.8/bin:"+os.Getenv("PATH"))}
	pkgs, err := packages.Load(cfg, patterns...)
	if err != nil {
		return nil, err
	}
	var errs []string
	packages.Visit(pkgs, nil, func(p *packages.Package) {
		for _, e := range p.Errors {
			errs = append(errs, e.Error())
		}
	})
	if len(errs) > 0 {
		return nil, fmt.Errorf("package load errors: %s", strings.Join(errs[:min(len(errs), 5)], "; "))
	}
	prog, spkgs := ssautil.AllPackages(pkgs, ssa.NaiveForm|ssa.GlobalDebug|ssa.InstantiateGenerics)
	prog.Build()
	l := &loaded{prog: prog, fset: pkgs[0].Fset, pkgs: spkgs, funcs: map[string]*ssa.Function{}}
	for fn := range ssautil.AllFunctions(prog) {
		if fn.Pkg == nil && fn.Parent() == nil && fn.Object() == nil {
			continue
		}
		p := fnPkg(fn)
		if p == nil || !isModulePkg(p) {
			continue
		}
		l.funcs[funcRef(fn)] = fn
	}
	return l, nil
}

type KnownFinding struct {
	Kind       string // finding | fixed
	Prop       string
	Obligation string
	Text       string
}

func loadKnownFindings(path string) []KnownFinding {
	b, err := os.ReadFile(path)
	if err != nil {
		return nil
	}
	var out []KnownFinding
	for _, line := range strings.Split(string(b), "\n") {
		line = strings.TrimSpace(line)
		if line == "" || strings.HasPrefix(line, "#") {
			continue
		}
		kf := KnownFinding{}
		switch {
		case strings.HasPrefix(line, "finding:"):
			kf.Kind = "finding"
			line = strings.TrimSpace(line[len("finding:"):])
		case strings.HasPrefix(line, "fixed:"):
			kf.Kind = "fixed"
			line = strings.TrimSpace(line[len("fixed:"):])
		case strings.HasPrefix(line, "open:"):
			kf.Kind = "open"
			line = strings.TrimSpace(line[len("open:"):])
		default:
			continue
		}
		// property=Cxx obligation=<name possibly quoted with spaces> witness=...
		if i := strings.Index(line, "property="); i >= 0 {
			rest := line[i+len("property="):]
			kf.Prop = strings.Fields(rest)[0]
		}
		if i := strings.Index(line, "obligation="); i >= 0 {
			rest := line[i+len("obligation="):]
			end := len(rest)
			for _, mark := range []string{" witness=", " reason="} {
				if j := strings.Index(rest, mark); j >= 0 && j < end {
					end = j
				}
			}
			kf.Obligation = strings.TrimSpace(rest[:end])
			kf.Text = strings.TrimSpace(rest[end:])
		} else {
			kf.Text = line
		}
		out = append(out, kf)
	}
	return out
}

func hasProp(props []string, p string) bool {
	for _, x := range props {
		if x == p {
			return true
		}
	}
	return false
}

func contractMentions(fc *FuncContract, p string) bool {
	if hasProp(fc.Props, p) {
		return true
	}
	for _, c := range fc.Clauses {
		if hasProp(c.Props, p) {
			return true
		}
	}
	for _, it := range fc.Iterates {
		if hasProp(it.Props, p) {
			return true
		}
	}
	return false
}

// obligationCounts decides whether an obligation counts for property p.
func obligationFor(ob *Obligation, fc *FuncContract, p string) bool {
	if fc.AutoVolatile {
		return ob.Kind == "volatile" || ob.Kind == "subset"
	}
	if fc.AutoCallerOf != "" {
		return ob.Kind == "subset" || (ob.Kind == "pre" && strings.HasPrefix(ob.Clause, fc.AutoCallerOf+" requires "))
	}
	if len(ob.Props) > 0 {
		return hasProp(ob.Props, p)
	}
	if fc.TaggedOnly && ob.Kind != "subset" && ob.Kind != "cover" {
		return false
	}
	// untagged obligations (safety, pre, lock, monitor...) belong to the function's default props
	if len(fc.Props) > 0 {
		return hasProp(fc.Props, p)
	}
	return true
}

type obResult struct {
	ob *Obligation
	fc *FuncContract
}

func RunCheck(opt Options) int {
	start := time.Now()
	repoRoot = opt.Repo
	curProp = opt.Prop
	thoroughTier = opt.Tier == "thorough"
	cs := NewContractSet()
	// contract files in repo
	files := FindContractFiles(opt.Repo)
	sort.Strings(files)
	for _, f := range files {
		rel, _ := filepath.Rel(opt.Repo, filepath.Dir(f))
		if err := cs.LoadContractFile(f, rel); err != nil {
			fmt.Println("CONTRACT-STALE:", err)
			return 2
		}
	}
	specs, _ := filepath.Glob(filepath.Join(opt.Verif, "specs", "external", "*.spec"))
	sort.Strings(specs)
	for _, f := range specs {
		if err := cs.LoadContractFile(f, ""); err != nil {
			fmt.Println("SPEC-ERROR:", err)
			return 2
		}
	}
	// functions for this property, grouped by module
	type target struct {
		key string
		fc  *FuncContract
		rel string
	}
	byMod := map[string][]target{}
	var modOrder []string
	for _, key := range cs.order {
		fc := cs.byName[key]
		if fc.Trusted || !strings.HasPrefix(fc.File, opt.Repo) || strings.Contains(key, "::") || strings.HasPrefix(fc.Header, "interface ") {
			continue
		}
		if !contractMentions(fc, opt.Prop) {
			continue
		}
		if opt.OnlyFunc != "" && !strings.Contains(key, opt.OnlyFunc) {
			continue
		}
		rel, _ := filepath.Rel(opt.Repo, filepath.Dir(fc.File))
		m := moduleFor(opt.Repo, rel)
		if _, ok := byMod[m.dir]; !ok {
			modOrder = append(modOrder, m.dir)
		}
		byMod[m.dir] = append(byMod[m.dir], target{key, fc, rel})
	}
	if len(byMod) == 0 {
		fmt.Printf("govc: no functions under contract for property %s\n", opt.Prop)
		return 2
	}
	var allObs []obResult
	var reports []FuncReport
	trusted := map[string]bool{}
	assumptions := map[string]bool{}
	vacuityProbes, vacuityOK := 0, 0
	stale := false
	for _, mdir := range modOrder {
		tg := byMod[mdir]
		pset := map[string]bool{}
		var patterns []string
		for _, t := range tg {
			mrel, _ := filepath.Rel(mdir, filepath.Join(opt.Repo, t.rel))
			pat := "./" + mrel
			if !pset[pat] {
				pset[pat] = true
				patterns = append(patterns, pat)
			}
		}
		var mod moduleInfo
		for _, m := range repoModules(opt.Repo) {
			if m.dir == mdir {
				mod = m
			}
		}
		t0 := time.Now()
		ld, err := loadModule(mod, patterns)
		if err != nil {
			fmt.Println("govc: load error:", err)
			return 2
		}
		if opt.Verbose {
			fmt.Printf("loaded %v in %.1fs\n", patterns, time.Since(t0).Seconds())
		}
		// an interface-method contract written in one of the loaded packages must name an interface method that exists
		for _, key := range cs.order {
			fc := cs.byName[key]
			if !strings.HasPrefix(fc.Header, "interface ") || !strings.HasPrefix(fc.File, opt.Repo) {
				continue
			}
			rel, _ := filepath.Rel(opt.Repo, filepath.Dir(fc.File))
			if m := moduleFor(opt.Repo, rel); m.dir != mdir {
				continue
			}
			inPatterns := false
			for _, t := range tg {
				if t.rel == rel {
					inPatterns = true
				}
			}
			if !inPatterns {
				continue
			}
			name := strings.TrimSpace(strings.TrimPrefix(fc.Header, "interface "))
			k := strings.LastIndex(name, ".")
			if k < 0 || !ifaceMethodExists(ld.prog, name[:k], name[k+1:]) {
				fmt.Printf("CONTRACT-STALE: interface contract %q (%s:%d) matches no interface method in the loaded program\n", name, fc.File, fc.Line)
				ob := &Obligation{Name: name + "#missing", Kind: "subset", Func: name, Clause: "interface method under contract not found", pairs: [][2]*Term{{True, False}}}
				allObs = append(allObs, obResult{ob, fc})
			}
		}
		// every module function that stores to a volatile field must keep its relation: writers without a contract for
		// this property are verified too (only their `volatile` obligations count)
		if opt.OnlyFunc == "" {
			have := map[string]bool{}
			for _, t := range tg {
				have[t.key] = true
			}
			for _, tk := range sortedKeys(cs.types) {
				tc := cs.types[tk]
				for _, vs := range tc.Volatile {
					if len(vs.Props) > 0 && !hasProp(vs.Props, opt.Prop) {
						continue
					}
					for _, fk := range sortedKeys(ld.funcs) {
						if have[fk] || !storesToField(ld.funcs[fk], tc.Key, vs.Field) {
							continue
						}
						have[fk] = true
						tg = append(tg, target{fk, &FuncContract{Key: fk, AutoVolatile: true, Props: []string{opt.Prop}}, ""})
					}
				}
			}
		}
		// `allcallers`: every module function that calls such a function is verified for the preconditions at its call
		// sites (functions without a contract for this property are added; only those `pre` obligations count)
		if opt.OnlyFunc == "" {
			have := map[string]bool{}
			for _, t := range tg {
				have[t.key] = true
			}
			for _, t := range append([]target(nil), tg...) {
				if !t.fc.AllCallers || ld.funcs[t.key] == nil {
					continue
				}
				callee := ld.funcs[t.key]
				for _, fk := range sortedKeys(ld.funcs) {
					if have[fk] || !callsStatically(ld.funcs[fk], callee) {
						continue
					}
					have[fk] = true
					afc := &FuncContract{Key: fk, AutoCallerOf: t.key, Props: []string{opt.Prop}}
					if ex := cs.byName[fk]; ex != nil {
						// the caller has a contract for other properties: verify it under that contract
						cp := *ex
						cp.AutoCallerOf = t.key
						afc = &cp
					}
					tg = append(tg, target{fk, afc, ""})
				}
			}
		}
		for _, t := range tg {
			fn := ld.funcs[t.key]
			if fn == nil {
				// a function the proof of this property rests on no longer exists: its contract cannot be discharged
				fmt.Printf("CONTRACT-STALE: function %s (contract at %s:%d) not found in current source\n", t.key, t.fc.File, t.fc.Line)
				ob := &Obligation{Name: t.key + "#missing", Kind: "subset", Func: t.key, Clause: "function under contract not found in the current source", pairs: [][2]*Term{{True, False}}}
				allObs = append(allObs, obResult{ob, t.fc})
				reports = append(reports, FuncReport{Name: t.key, OutOfSubset: "function not found", Obligations: 1})
				continue
			}
			v := NewVerifier(ld.prog, ld.fset, cs)
			f0 := time.Now()
			rep := FuncReport{Name: t.key}
			pos := ld.fset.Position(fn.Pos())
			rep.File = fmt.Sprintf("%s:%d", strings.TrimPrefix(pos.Filename, opt.Repo+"/"), pos.Line)
			for _, b := range fn.Blocks {
				rep.SSAInstrs += len(b.Instrs)
			}
			err := v.VerifyFunction(fn, t.fc)
			rep.Seconds = time.Since(f0).Seconds()
			if err != nil {
				// a contract that can no longer be evaluated against the code (a name it mentions is gone) is an
				// undischarged obligation of this property, like a function outside the subset
				rep.OutOfSubset = err.Error()
				fmt.Printf("govc: %s: out of subset: %v\n", t.key, err)
				// an out-of-subset function generates one undischargeable obligation so that it cannot be counted as proved
				v.obls["#subset"] = &Obligation{Name: t.key + "#subset", Kind: "subset", Func: t.key, Clause: err.Error(), pairs: [][2]*Term{{True, False}}}
				v.oblOrder = append(v.oblOrder, "#subset")
			}
			vacuityProbes += v.vacProbes
			vacuityOK += v.vacOK
			noteSet := map[string]bool{}
			for _, n := range v.oblOrder {
				ob := v.obls[n]
				if !obligationFor(ob, t.fc, opt.Prop) {
					continue
				}
				rep.Obligations++
				allObs = append(allObs, obResult{ob, t.fc})
				for _, x := range ob.notes {
					noteSet[x] = true
				}
			}
			for k := range v.byContract {
				rep.ByContract = append(rep.ByContract, k)
			}
			for k := range v.inlinedFns {
				rep.Inlined = append(rep.Inlined, k)
			}
			for k := range v.trusted {
				rep.Havoced = append(rep.Havoced, k)
				trusted[k] = true
			}
			for k := range v.assumptions {
				assumptions[k] = true
			}
			for k := range noteSet {
				rep.Notes = append(rep.Notes, k)
			}
			sort.Strings(rep.ByContract)
			sort.Strings(rep.Inlined)
			sort.Strings(rep.Havoced)
			sort.Strings(rep.Notes)
			reports = append(reports, rep)
			if opt.Verbose {
				fmt.Printf("  %s: %d obligations (%.2fs)\n", t.key, rep.Obligations, rep.Seconds)
			}
		}
	}
	if stale {
		return 2
	}
	// build scripts and solve in parallel
	// per-script solver limit: generous compared with what any claimed obligation needs on an idle machine (all are
	// below 10 s), so that a loaded machine does not turn a proof into an alarm
	timeout := 45
	if opt.Tier == "thorough" {
		timeout = 120
	}
	if opt.Timeout > 0 {
		timeout = opt.Timeout
	}
	for _, r := range allObs {
		r.ob.prepare()
	}
	var wg sync.WaitGroup
	sem := make(chan struct{}, 8)
	for _, r := range allObs {
		ob := r.ob
		if ob.Result != nil {
			continue
		}
		wg.Add(1)
		go func() {
			defer wg.Done()
			sem <- struct{}{}
			defer func() { <-sem }()
			res := ob.solveAll(timeout, opt.Tier == "thorough")
			ob.Result = &res
		}()
	}
	wg.Wait()
	if opt.DumpSMT != "" {
		os.MkdirAll(opt.DumpSMT, 0o755)
		for i, r := range allObs {
			os.WriteFile(filepath.Join(opt.DumpSMT, fmt.Sprintf("%03d.smt2", i)), []byte("; "+r.ob.Name+"\n; "+r.ob.Result.Status+"\n"+r.ob.script), 0o644)
		}
	}
	return report(opt, allObs, reports, trusted, assumptions, vacuityProbes, vacuityOK, time.Since(start).Seconds())
}

// prepare renders the SMT script of an obligation (or decides it trivially).
// skolemize replaces universally quantified variables in positive positions of a goal by fresh constants.
func skolemize(g *Term, sks *[]*Term) *Term {
	switch g.op {
	case "forall":
		m := map[*Term]*Term{}
		for _, b := range g.binds {
			c := Fresh("sk!"+b.name, b.sort)
			m[b] = c
			*sks = append(*sks, c)
		}
		return skolemize(Subst(g.args[0], m), sks)
	case "and":
		var out []*Term
		for _, a := range g.args {
			out = append(out, skolemize(a, sks))
		}
		return And(out...)
	case "=>":
		return Implies(g.args[0], skolemize(g.args[1], sks))
	}
	return g
}

// instantiateAt adds ground instances of the universally quantified conjuncts of pc at the goal's skolem constants
// (E-matching often misses them when the goal state differs from the hypothesis state by stores).
func instantiateAt(pc *Term, sks []*Term) []*Term {
	if len(sks) == 0 {
		return nil
	}
	var conj []*Term
	if pc.op == "and" {
		conj = pc.args
	} else {
		conj = []*Term{pc}
	}
	var out []*Term
	var visit func(t *Term, guard *Term)
	visit = func(t *Term, guard *Term) {
		switch t.op {
		case "and":
			for _, a := range t.args {
				visit(a, guard)
			}
		case "=>":
			visit(t.args[1], And(guard, t.args[0]))
		case "forall":
			// all combinations of skolems with matching sorts (bounded)
			combos := [][]*Term{{}}
			for _, b := range t.binds {
				var next [][]*Term
				for _, c := range combos {
					for _, sk := range sks {
						if sk.sort == b.sort {
							next = append(next, append(append([]*Term{}, c...), sk))
						}
					}
				}
				combos = next
				if len(combos) == 0 || len(combos) > 24 {
					return
				}
			}
			for _, c := range combos {
				m := map[*Term]*Term{}
				for i, b := range t.binds {
					m[b] = c[i]
				}
				inst := Subst(t.args[0], m)
				out = append(out, Implies(guard, inst))
				// one more level: nested quantifiers in the instance
				visit(inst, guard)
			}
		}
	}
	for _, c := range conj {
		visit(c, True)
	}
	return out
}

func (ob *Obligation) prepare() {
	var disj []*Term
	for _, p := range ob.pairs {
		var sks []*Term
		goal := skolemize(p[1], &sks)
		extra := instantiateAt(p[0], sks)
		// a conjunctive goal is proved conjunct by conjunct (each query is much easier than the disjunction of negations)
		parts := []*Term{goal}
		if hasQuant(p[0]) {
			parts = splitGoal(goal)
		}
		for _, g := range parts {
			d := And(append([]*Term{p[0], Not(g)}, extra...)...)
			if !d.isFalse() {
				disj = append(disj, d)
			}
		}
	}
	if len(disj) == 0 {
		ob.Result = &SolveResult{Status: "unsat", Solver: "govc-simplifier"}
		return
	}
	// one script per path (a disjunction over paths is harder for the solvers than the separate cases); unquantified
	// obligations with many paths are grouped to keep the number of solver runs down
	var groups []*Term
	quant := false
	for _, d := range disj {
		if hasQuant(d) {
			quant = true
		}
	}
	if quant || len(disj) <= 4 {
		groups = disj
	} else {
		const per = 8
		for k := 0; k < len(disj); k += per {
			e := k + per
			if e > len(disj) {
				e = len(disj)
			}
			groups = append(groups, Or(disj[k:e]...))
		}
	}
	ob.Quant = quant
	for _, g := range groups {
		sc := scriptFor(g)
		ob.scripts = append(ob.scripts, sc)
		ob.SMTSize += len(sc)
	}
	ob.script = ob.scripts[0]
}

// splitGoal breaks A && B and P => (A && B) into separately provable goals.
func splitGoal(g *Term) []*Term {
	switch g.op {
	case "and":
		var out []*Term
		for _, a := range g.args {
			out = append(out, splitGoal(a)...)
		}
		return out
	case "=>":
		var out []*Term
		for _, c := range splitGoal(g.args[1]) {
			out = append(out, Implies(g.args[0], c))
		}
		return out
	}
	return []*Term{g}
}

func hasQuant(t *Term) bool {
	seen := map[int]bool{}
	var rec func(t *Term) bool
	rec = func(t *Term) bool {
		if seen[t.id] {
			return false
		}
		seen[t.id] = true
		if t.op == "forall" || t.op == "exists" {
			return true
		}
		for _, a := range t.args {
			if rec(a) {
				return true
			}
		}
		return false
	}
	return rec(t)
}

func scriptFor(neg *Term) string {
	asserts := []*Term{neg}
	seen := map[int]bool{}
	factSeen := map[int]bool{}
	var queue []*Term
	var visit func(t *Term)
	visit = func(t *Term) {
		if seen[t.id] {
			return
		}
		seen[t.id] = true
		if fs, ok := termFacts[t.id]; ok {
			for _, f := range fs {
				if !factSeen[f.id] {
					factSeen[f.id] = true
					queue = append(queue, f)
				}
			}
		}
		for _, a := range t.args {
			visit(a)
		}
	}
	visit(neg)
	for len(queue) > 0 {
		f := queue[0]
		queue = queue[1:]
		asserts = append(asserts, f)
		visit(f)
	}
	return Script(asserts, true)
}

// solveAll discharges every script of the obligation; the obligation holds iff all are unsat.
func (ob *Obligation) solveAll(timeout int, needAgree bool) SolveResult {
	var agg SolveResult
	agg.Status = "unsat"
	for i, sc := range ob.scripts {
		r := Solve(sc, timeout, ob.Quant, needAgree)
		agg.Seconds += r.Seconds
		if i == 0 {
			agg.Solver = r.Solver
		}
		if r.Status != "unsat" {
			r.Seconds = agg.Seconds
			ob.script = sc
			return r
		}
	}
	return agg
}

type replayFile struct {
	Property   string            `json:"property"`
	Obligation string            `json:"obligation"`
	Kind       string            `json:"kind"`
	Function   string            `json:"function"`
	Position   string            `json:"position"`
	Clause     string            `json:"clause"`
	Solver     string            `json:"solver"`
	Status     string            `json:"status"`
	Output     string            `json:"solver_output"`
	Model      map[string]string `json:"model,omitempty"`
	Inputs     map[string]string `json:"entry_values,omitempty"`
	Replay     string            `json:"replay_outcome"`
	ReplayLog  string            `json:"replay_log,omitempty"`
	TestSource string            `json:"generated_test,omitempty"`
	Notes      []string          `json:"notes,omitempty"`
}

func report(opt Options, obs []obResult, reports []FuncReport, trusted, assumptions map[string]bool, vacP, vacOK int, wall float64) int {
	kfs := loadKnownFindings(filepath.Join(opt.Verif, "known_findings.txt"))
	kfs = append(kfs, loadKnownFindings(filepath.Join(opt.Verif, "baseline", "open_obligations.txt"))...)
	kfByOb := map[string]KnownFinding{}
	for _, k := range kfs {
		if (k.Kind == "finding" || k.Kind == "open") && k.Prop == opt.Prop {
			kfByOb[k.Obligation] = k
		}
	}
	total, discharged := 0, 0
	byBackend := map[string]*struct {
		N   int     `json:"n"`
		Sec float64 `json:"seconds"`
	}{}
	type slow struct {
		Name string  `json:"name"`
		Sec  float64 `json:"seconds"`
		Sol  string  `json:"solver"`
	}
	var slowest []slow
	var kfHit, openHit []string
	var violations []*Obligation
	var samples []map[string]interface{}
	kindCount := map[string]int{}
	seenKF := map[string]bool{}
	for _, r := range obs {
		ob := r.ob
		res := ob.Result
		kindCount[ob.Kind]++
		if k, ok := kfByOb[ob.Name]; ok {
			seenKF[ob.Name] = true
			if res.Status == "unsat" {
				// a listed finding/open obligation that now discharges: fine (count it)
				total++
				discharged++
				fmt.Printf("NOTE: listed %s obligation now discharges: %s\n", k.Kind, ob.Name)
				continue
			}
			if k.Kind == "finding" {
				fmt.Printf("KNOWN-FINDING: property=%s %s %s\n", opt.Prop, ob.Name, k.Text)
				kfHit = append(kfHit, ob.Name)
			} else {
				openHit = append(openHit, ob.Name)
			}
			continue
		}
		total++
		if res.Status == "unsat" {
			discharged++
			b := byBackend[res.Solver]
			if b == nil {
				b = &struct {
					N   int     `json:"n"`
					Sec float64 `json:"seconds"`
				}{}
				byBackend[res.Solver] = b
			}
			b.N++
			b.Sec += res.Seconds
			slowest = append(slowest, slow{ob.Name, res.Seconds, res.Solver})
			if len(samples) < 8 && res.Solver != "govc-simplifier" {
				samples = append(samples, map[string]interface{}{"obligation": ob.Name, "kind": ob.Kind, "clause": ob.Clause, "pos": ob.Pos, "smt_bytes": ob.SMTSize, "solver": res.Solver, "seconds": res.Seconds})
			}
		} else {
			violations = append(violations, ob)
		}
	}
	sort.Slice(slowest, func(i, j int) bool { return slowest[i].Sec > slowest[j].Sec })
	if len(slowest) > 5 {
		slowest = slowest[:5]
	}
	if len(samples) == 0 {
		for _, r := range obs {
			if len(samples) < 3 {
				samples = append(samples, map[string]interface{}{"obligation": r.ob.Name, "kind": r.ob.Kind, "clause": r.ob.Clause, "solver": r.ob.Result.Solver})
			}
		}
	}
	exit := 0
	os.MkdirAll(filepath.Join(opt.Verif, "out", "replay"), 0o755)
	if old, _ := filepath.Glob(filepath.Join(opt.Verif, "out", "replay", opt.Prop+"-*.json")); opt.OnlyFunc == "" {
		for _, f := range old {
			os.Remove(f)
		}
	}
	for i, ob := range violations {
		rf := replayFile{Property: opt.Prop, Obligation: ob.Name, Kind: ob.Kind, Function: ob.Func, Position: ob.Pos, Clause: ob.Clause,
			Solver: ob.Result.Solver, Status: ob.Result.Status, Output: ob.Result.Output, Model: ob.Result.Model, Notes: ob.notes}
		rf.Replay = "not-replayable"
		suffix := " no-failing-input-found"
		rf.Inputs = map[string]string{}
		for k, val := range ob.Result.Model {
			if strings.HasPrefix(k, "in!") {
				rf.Inputs[k] = val
			}
		}
		// hand-written witnesses (replay/builders) apply whatever the solver answered; model-driven replay needs a model
		outcome, log, src := "not-replayable", "", ""
		if !opt.NoReplay {
			outcome, log, src = tryReplay(opt, ob, rf.Inputs)
		}
		rf.Replay, rf.ReplayLog, rf.TestSource = outcome, log, src
		if outcome == "reproduced" {
			suffix = ""
		}
		path := filepath.Join(opt.Verif, "out", "replay", fmt.Sprintf("%s-%03d.json", opt.Prop, i))
		b, _ := json.MarshalIndent(rf, "", "  ")
		os.WriteFile(path, b, 0o644)
		fmt.Printf("FAILED-OBLIGATION: %s [%s] %s at %s (%s, %s)\n", ob.Name, ob.Kind, trunc(ob.Clause, 100), ob.Pos, ob.Result.Status, ob.Result.Solver)
		if opt.EmitOpen {
			fmt.Printf("EMIT open: property=%s obligation=%s reason=TODO (%s at %s)\n", opt.Prop, ob.Name, ob.Result.Status, ob.Pos)
		}
		fmt.Printf("VIOLATION property=%s replay=%s obligation=%s%s\n", opt.Prop, path, ob.Name, suffix)
		exit = 1
	}
	// listed findings that no longer exist as obligations are only reported
	for name, k := range kfByOb {
		if !seenKF[name] && k.Kind == "finding" && opt.OnlyFunc == "" {
			fmt.Printf("NOTE: listed finding has no matching obligation on this tree: %s\n", name)
		}
	}
	fmt.Printf("govc: property %s tier %s: %d obligations, %d discharged, %d known findings, %d open (not claimed), %d violations, %.1fs\n",
		opt.Prop, opt.Tier, total, discharged, len(kfHit), len(openHit), len(violations), wall)
	if opt.NoEvidence {
		return exit
	}
	var tb []string
	for k := range trusted {
		tb = append(tb, "havoc'd callee: "+k)
	}
	sort.Strings(tb)
	tb = append([]string{"govc VC generator (this repository, /verif/engine) and go/ssa lowering", "SMT solvers z3 5.1.0, cvc5 1.0.x, z3 4.8.12", "external specs under /verif/specs/external/*.spec"}, tb...)
	var as []string
	for k := range assumptions {
		as = append(as, k)
	}
	sort.Strings(as)
	as = append(as, "integers: exact Go machine semantics (wrap-around encoded over SMT Int); spec integers are mathematical",
		"receivers of verified methods are non-nil; slice/string lengths <= 2^47",
		"dynamic calls without contract do not modify tracked heap state (listed per callee in trusted_base)")
	level := "proof"
	ev := map[string]interface{}{
		"property_id": opt.Prop, "tier": opt.Tier, "seed": opt.Seed, "level": level,
		"coverage": map[string]interface{}{
			"obligations": total, "discharged": discharged,
			"checker_cmd":  fmt.Sprintf("/verif/bin/govc check -p %s -tier %s", opt.Prop, opt.Tier),
			"trusted_base": tb,
			"functions_under_contract": reports,
			"by_backend":               byBackend,
			"by_kind":                  kindCount,
			"slowest":                  slowest,
			"known_finding_obligations": kfHit,
			"not_decided_obligations":   openHit,
			"vacuity":                  map[string]int{"probes": vacP, "passed": vacOK},
			"samples":                  samples,
			"contract_files":           relFiles(opt, obs),
		},
		"assumptions": as,
		"wall_s":      wall,
		"violations":  len(violations),
	}
	os.MkdirAll(filepath.Join(opt.Verif, "evidence"), 0o755)
	b, _ := json.MarshalIndent(ev, "", " ")
	os.WriteFile(filepath.Join(opt.Verif, "evidence", opt.Prop+".json"), b, 0o644)
	return exit
}

func relFiles(opt Options, obs []obResult) []string {
	set := map[string]bool{}
	for _, r := range obs {
		set[strings.TrimPrefix(r.fc.File, opt.Repo+"/")] = true
	}
	var out []string
	for k := range set {
		out = append(out, k)
	}
	sort.Strings(out)
	return out
}

// ---------- verifying one function ----------

func (v *Verifier) VerifyFunction(fn *ssa.Function, fc *FuncContract) (err error) {
	defer func() {
		if r := recover(); r != nil {
			if a, ok := r.(abortExec); ok {
				err = fmt.Errorf("%s", a.msg)
				return
			}
			panic(r)
		}
	}()
	v.top = fn
	v.topC = fc
	if p := fnPkg(fn); p != nil {
		curScope = shortPkg(p.Path())
	}
	arithMath = fc.ArithMath
	defer func() { arithMath = false }()
	if fc.ArithMath {
		v.assumptions["machine arithmetic treated as mathematical (no overflow) in "+funcRef(fn)+" (contract clause `arith math`)"] = true
	}
	st := &State{cells: map[*Cell]*Value{}, heap: map[string]*Term{}, ghost: map[string]*Value{}}
	st.wm = Const("wm0", SInt)
	st.assume(Ge(st.wm, Int(0)))
	v.entryArgs = map[string]*Value{}
	var args []*Value
	for i, p := range fn.Params {
		a := namedValue("in!"+p.Name(), p.Type())
		st.assumeAllocated(a)
		if i == 0 && fn.Signature.Recv() != nil && isPointer(p.Type()) {
			st.assume(Gt(a.term(), Int(0)))
		}
		args = append(args, a)
		v.entryArgs[p.Name()] = a
	}
	// closures: free variables are pointers to captured variables
	var clo *Closure
	if len(fn.FreeVars) > 0 {
		clo = &Closure{Fn: fn}
		for _, fv := range fn.FreeVars {
			b := namedValue("cap!"+fv.Name(), fv.Type())
			st.assume(Gt(b.term(), Int(0)))
			st.assumeAllocated(b)
			clo.Binds = append(clo.Binds, b)
		}
	}
	// ghost globals
	for _, gk := range sortedKeys(v.contracts.ghosts) {
		g := v.contracts.ghosts[gk]
		// ghosts of other packages exist too (their contracts may be applied at calls into them); their types are
		// resolved in the declaring package, which must be part of the loaded program
		gpkg := fnPkg(fn)
		if g.Scope != "" && g.Scope != curScope {
			gpkg = nil
			for _, p := range v.prog.AllPackages() {
				if shortPkg(p.Pkg.Path()) == g.Scope {
					gpkg = p.Pkg
				}
			}
			if gpkg == nil {
				continue
			}
		}
		name := g.Name
		if _, dup := st.ghost[name]; dup {
			continue
		}
		ev := &Eval{v: v, st: st, pkg: gpkg}
		gv := namedValue("ghost!"+name, ev.resolveType(g.Typ))
		if isMap(gv.T) {
			// ghost maps exist and are pairwise distinct objects
			st.assume(Gt(gv.term(), Int(0)))
			st.assume(Le(gv.term(), st.wm))
			for _, other := range sortedKeys(st.ghost) {
				if o := st.ghost[other]; isMap(o.T) {
					st.assume(Neq(gv.term(), o.term()))
				}
			}
		}
		st.ghost[name] = gv
		if g.Quiet && g.Scope == curScope {
			v.assumptions["ghost "+g.Scope+"::"+name+" is `quiet`: calls whose target is unknown (func values, interface methods without contract) are assumed not to change it"] = true
		}
	}
	for _, ax := range v.contracts.axioms {
		if ax.Scope != "" && ax.Scope != curScope {
			continue
		}
		if len(ax.Props) > 0 && !hasProp(ax.Props, curProp) {
			continue
		}
		ev := &Eval{v: v, st: st, old: st, env: map[string]*Value{}, mode: evalCall, pkg: fnPkg(fn)}
		axt := ev.boolExpr(ax.Expr)
		if os.Getenv("GOVC_DEBUG") == "axiom" {
			fmt.Fprintf(os.Stderr, "DEBUG axiom %s => %s\n", ax.Text, trunc(axt.String(), 600))
		}
		st.assume(axt)
		v.assumptions["axiom ("+ax.Scope+"): "+ax.Text] = true
	}
	st.frame = nil
	st.ghost["$gocount"] = scalar(types.Typ[types.Int], Int(0))
	st.ghost["$didlock"] = scalar(types.Typ[types.Bool], False)
	st.assume(Not(Select(st.heapArr("chan#running", runningSort), Int(0))))
	// preconditions
	pre := &Eval{v: v, st: st, old: st, env: map[string]*Value{}, mode: evalPre, fn: fn, fc: fc, pkg: fnPkg(fn)}
	if clo != nil {
		for i, fv := range fn.FreeVars {
			et := fv.Type().(*types.Pointer).Elem()
			pre.env[fv.Name()] = st.loadPtr(clo.Binds[i].term(), et)
		}
	}
	for _, c := range fc.Clauses {
		if c.Kind == "requires" && !c.IsLoop {
			if c.heldLock != nil {
				mu := pre.evalAddr(c.heldLock)
				v.lock(st, mu, true, fn.Pos())
				continue
			}
			// a precondition is an assumption: a conjunct that can no longer be stated (it mentions a name that does not
			// exist any more) is dropped, which only makes the verification stricter
			for _, conj := range splitAndExpr(c.Expr) {
				if g, ok := pre.tryBool(conj); ok {
					st.assume(g)
				} else {
					v.assumptions["precondition conjunct dropped (names unknown on this tree): "+conj.Text] = true
				}
			}
		}
	}
	for _, c := range fc.Captures {
		// proved where the closure is created (checkCaptures)
		if clo != nil {
			st.assume(pre.boolExpr(c.Expr))
		}
	}
	v.entry = st.clone()
	v.topClo = clo
	v.vacuity(st, "entry of "+funcRef(fn))
	exits := v.runFunc(fn, st, args, clo)
	for _, e := range exits {
		if !e.st.dead {
			v.cover(e.st, "some return")
		}
	}
	// unreachable cover targets are undischargeable obligations (vacuity guard)
	for _, what := range v.coverOrder {
		if !v.coverSeen[what] {
			name := funcRef(fn) + "#cover@\"" + what + "\""
			v.obls[name] = &Obligation{Name: name, Kind: "cover", Func: funcRef(fn), Clause: what + " is unreachable under the contract (vacuous proof)", pairs: [][2]*Term{{True, False}}}
			v.oblOrder = append(v.oblOrder, name)
		}
	}
	for _, e := range exits {
		if e.st.dead {
			continue
		}
		v.vacuityLate(e.st)
		ev := &Eval{v: v, st: e.st, old: v.entry, env: map[string]*Value{}, mode: evalPost, fn: fn, fc: fc, pkg: fnPkg(fn), cells: v.topCells}
		rs := fn.Signature.Results()
		for k := 0; k < rs.Len() && k < len(e.results); k++ {
			if n := rs.At(k).Name(); n != "" && n != "_" {
				ev.env[n] = e.results[k]
			}
			ev.env[fmt.Sprintf("result%d", k)] = e.results[k]
			if fc.ResultNames != nil && k < len(fc.ResultNames) {
				ev.env[fc.ResultNames[k]] = e.results[k]
			}
		}
		if len(e.results) == 1 {
			ev.env["result"] = e.results[0]
		}
		if n := rs.Len(); n >= 1 && n <= len(e.results) && ev.env["err"] == nil && v.entryArgs["err"] == nil && typeName(rs.At(n-1).Type()) == "error" {
			ev.env["err"] = e.results[n-1]
		}
		if clo != nil {
			for i, fv := range fn.FreeVars {
				et := fv.Type().(*types.Pointer).Elem()
				ev.env[fv.Name()] = e.st.loadPtr(clo.Binds[i].term(), et)
			}
		}
		for _, c := range fc.Clauses {
			if c.Kind == "ensures" && !c.IsLoop {
				v.addOb(e.st, "post", fn.Pos(), ev.boolExpr(c.Expr), "ensures "+c.Text, c.Props)
			}
		}
		// frame: an explicit `modifies` clause is checked against the body
		if hasModifies(fc) {
			keys, goals := v.frameGoals(e.st, nil)
			for i, k := range keys {
				v.addOb(e.st, "frame", fn.Pos(), goals[i], "modifies: "+k+" changes only at the declared targets", nil)
			}
		}
		// refinement: ensures of interface-method contracts this method implements
		for _, ic := range v.ifaceContractsFor(fn) {
			iev := &Eval{v: v, st: e.st, old: v.entry, env: map[string]*Value{}, mode: evalCall, fc: ic, pkg: fnPkg(fn)}
			if len(args) > 0 {
				iev.env["self"] = args[0]
			}
			sig := fn.Signature
			for k := 0; k < sig.Params().Len() && k+1 < len(args); k++ {
				n := sig.Params().At(k).Name()
				if ic.ParamNames != nil && k < len(ic.ParamNames) {
					n = ic.ParamNames[k]
				}
				iev.env[n] = args[k+1]
			}
			for k := 0; k < rs.Len() && k < len(e.results); k++ {
				iev.env[fmt.Sprintf("result%d", k)] = e.results[k]
				if ic.ResultNames != nil && k < len(ic.ResultNames) {
					iev.env[ic.ResultNames[k]] = e.results[k]
				}
			}
			if len(e.results) == 1 {
				iev.env["result"] = e.results[0]
			}
			for _, c := range ic.Clauses {
				if c.Kind == "ensures" {
					// a clause that defines a ghost record of another package (a counter of calls through the interface,
					// kept by the caller's package) is not something an implementation can establish
					if v.mentionsForeignGhost(c.Expr) {
						continue
					}
					v.addOb(e.st, "post", fn.Pos(), iev.boolExpr(c.Expr), "implements "+ic.Key+": ensures "+c.Text, c.Props)
				}
			}
		}
	}
	return nil
}

// mentionsForeignGhost: e names a ghost global that is declared in a package other than the one under verification.
func (v *Verifier) mentionsForeignGhost(e *Expr) bool {
	if e == nil {
		return false
	}
	if e.Op == "id" && v.contracts.isGhostGlobal(e.Name) && !v.contracts.ghostInScope(e.Name, curScope) {
		return true
	}
	for _, a := range e.Args {
		if v.mentionsForeignGhost(a) {
			return true
		}
	}
	return false
}

// ifaceMethodExists: some named interface type called typeKey (pkg.Type) in the program has method `method`.
func ifaceMethodExists(prog *ssa.Program, typeKey, method string) bool {
	for _, p := range prog.AllPackages() {
		for _, m := range p.Members {
			t, ok := m.(*ssa.Type)
			if !ok {
				continue
			}
			it, ok := under(t.Type()).(*types.Interface)
			if !ok || typeName(t.Type()) != typeKey {
				continue
			}
			for i := 0; i < it.NumMethods(); i++ {
				if it.Method(i).Name() == method {
					return true
				}
			}
		}
	}
	return false
}

// storesToField: fn contains a store to field `field` of the struct type named typeKey (pkg.Type).
func storesToField(fn *ssa.Function, typeKey, field string) bool {
	for _, b := range fn.Blocks {
		for _, ins := range b.Instrs {
			st, ok := ins.(*ssa.Store)
			if !ok {
				continue
			}
			fa, ok := st.Addr.(*ssa.FieldAddr)
			if !ok {
				continue
			}
			pt, ok := under(fa.X.Type()).(*types.Pointer)
			if !ok {
				continue
			}
			u, ok := under(pt.Elem()).(*types.Struct)
			if !ok {
				continue
			}
			if typeName(pt.Elem()) == typeKey && u.Field(fa.Field).Name() == field {
				return true
			}
		}
	}
	return false
}

// callsStatically: fn contains a call (also deferred or in a go statement) whose static callee is callee.
func callsStatically(fn, callee *ssa.Function) bool {
	for _, b := range fn.Blocks {
		for _, ins := range b.Instrs {
			if ci, ok := ins.(ssa.CallInstruction); ok {
				if sc := ci.Common().StaticCallee(); sc != nil && (sc == callee || sc.Origin() == callee) {
					return true
				}
			}
		}
	}
	return false
}

// modifiesNamesGhost: some modifies target of fc is rooted at ghost global g (or is `anything`).
func modifiesNamesGhost(fc *FuncContract, g string) bool {
	var root func(e *Expr) string
	root = func(e *Expr) string {
		switch e.Op {
		case "id":
			return e.Name
		case "star", "field", "index", "paren":
			if len(e.Args) > 0 {
				return root(e.Args[0])
			}
		}
		return ""
	}
	for _, c := range fc.Clauses {
		if c.Kind != "modifies" || c.IsLoop {
			continue
		}
		for _, e := range c.Exprs {
			if n := root(e); n == g || n == "anything" {
				return true
			}
		}
	}
	return false
}

func hasModifies(fc *FuncContract) bool {
	if fc == nil {
		return false
	}
	for _, c := range fc.Clauses {
		if c.Kind == "modifies" && !c.IsLoop {
			return true
		}
	}
	return false
}

// frameHeap: heap arrays subject to the frame check (data, ghost fields, Once flags).
func frameHeap(k string) bool {
	for p := range foreignPrivate {
		if strings.HasPrefix(k, p) {
			return false
		}
	}
	for _, p := range []string{"F:", "E:", "P:", "M:", "B:", "G:", "O:"} {
		if strings.HasPrefix(k, p) {
			return true
		}
	}
	return false
}

// frameGoals states, for the function being verified (v.top), that state cur differs from the entry state only at
// the targets of its `modifies` clauses and at objects allocated since entry: the entry heap is updated at every
// declared target with the value found in cur, and must then agree with cur on every object that existed at entry.
// only == nil: all heap arrays that differ syntactically; otherwise the listed ones.
func (v *Verifier) frameGoals(cur *State, only map[string]Sort) (keys []string, goals []*Term) {
	fn := v.top
	fc := v.contracts.forFunc(fn)
	if fc == nil || !hasModifies(fc) {
		return
	}
	mod := v.entry.clone()
	ev := &Eval{v: v, st: mod, old: v.entry, env: map[string]*Value{}, mode: evalPost, fn: fn, fc: fc, pkg: fnPkg(fn), cells: v.topCells, frameFrom: cur}
	if v.topClo != nil {
		for i, fv := range fn.FreeVars {
			et := fv.Type().(*types.Pointer).Elem()
			ev.env[fv.Name()] = v.entry.loadPtr(v.topClo.Binds[i].term(), et)
		}
	}
	for _, c := range fc.Clauses {
		if c.Kind == "modifies" && !c.IsLoop {
			for _, e := range c.Exprs {
				ev.havocTarget(e)
			}
		}
	}
	cand := map[string]bool{}
	if only != nil {
		for k := range only {
			cand[k] = true
		}
	} else {
		for k := range cur.heap {
			cand[k] = true
		}
	}
	wm0 := v.entry.wm
	for _, k := range sortedKeys(cand) {
		if !frameHeap(k) {
			continue
		}
		hc, ok := cur.heap[k]
		if !ok {
			continue
		}
		hm := mod.heapArr(k, hc.sort)
		if hm == hc {
			continue
		}
		is, _, ok := arrayParts(hc.sort)
		if !ok {
			continue
		}
		r := BoundVar("r!frame", is)
		body := Eq(Select(hc, r), Select(hm, r))
		if is == SInt {
			// nothing lives at the nil reference
			body = Implies(And(Lt(Int(0), r), Le(r, wm0)), body)
		}
		keys = append(keys, k)
		goals = append(goals, Forall([]*Term{r}, body, []*Term{Select(hc, r)}))
	}
	// ghost globals not named in a modifies clause keep their value
	{
		for _, g := range sortedKeys(cur.ghost) {
			if strings.HasPrefix(g, "$") {
				continue
			}
			a, b := cur.ghost[g], mod.ghost[g]
			if a == nil || b == nil || valueIdentical(a, b) {
				continue
			}
			var eqs []*Term
			for i := range a.L {
				if a.L[i] != nil && b.L[i] != nil {
					eqs = append(eqs, Eq(a.L[i], b.L[i]))
				}
			}
			keys = append(keys, "ghost "+g)
			goals = append(goals, And(eqs...))
		}
	}
	return
}

// ifaceContractsFor returns interface-method contracts that fn (a method) must refine.
func (v *Verifier) ifaceContractsFor(fn *ssa.Function) []*FuncContract {
	recv := fn.Signature.Recv()
	if recv == nil {
		return nil
	}
	var out []*FuncContract
	for _, key := range v.contracts.order {
		ic := v.contracts.byName[key]
		if !strings.HasPrefix(ic.Header, "interface ") {
			continue
		}
		if i := strings.Index(key, "::"); i >= 0 {
			if key[:i] != curScope {
				continue
			}
			key = key[i+2:]
		}
		k := strings.LastIndex(key, ".")
		if k < 0 || key[k+1:] != fn.Name() {
			continue
		}
		it := v.lookupNamedType(key[:k])
		if it == nil {
			continue
		}
		iface, ok := it.Underlying().(*types.Interface)
		if !ok {
			continue
		}
		if types.Implements(recv.Type(), iface) {
			out = append(out, ic)
		}
	}
	return out
}

func (v *Verifier) lookupNamedType(short string) types.Type {
	k := strings.LastIndex(short, ".")
	if k < 0 {
		return nil
	}
	pkgShort, name := short[:k], short[k+1:]
	for _, p := range v.prog.AllPackages() {
		if shortPkg(p.Pkg.Path()) == pkgShort {
			if o := p.Pkg.Scope().Lookup(name); o != nil {
				if tn, ok := o.(*types.TypeName); ok {
					return tn.Type()
				}
			}
		}
	}
	return nil
}

// evalAddr evaluates an expression denoting a mutex field to a pointer value with lvalue info.
func (ev *Eval) evalAddr(e *Expr) *Value {
	if e.Op == "field" {
		x := ev.eval(e.Args[0])
		if p, ok := under(x.T).(*types.Pointer); ok {
			st := p.Elem()
			u := under(st).(*types.Struct)
			for i := 0; i < u.NumFields(); i++ {
				if u.Field(i).Name() == e.Name {
					ft := u.Field(i).Type()
					return &Value{T: types.NewPointer(ft), L: []*Term{Add(x.term(), Int(fieldOffset(u, i)))},
						LV: &LValue{kind: lvField, obj: x.term(), st: st, field: i, t: ft, rootT: ft}}
				}
			}
		}
	}
	if e.Op == "id" && ev.st != nil && ev.st.frame != nil {
		// address of a captured variable or an escaping local
		if ev.fn != nil {
			for _, fv := range ev.fn.FreeVars {
				if fv.Name() == e.Name {
					if val, ok := ev.st.frame.regs[fv]; ok && val.L[0] != nil {
						return val
					}
				}
			}
		}
		for reg, val := range ev.st.frame.regs {
			if a, ok := reg.(*ssa.Alloc); ok && a.Heap && a.Comment == e.Name && val.L[0] != nil {
				return val
			}
		}
		if v, ok := ev.env["&"+e.Name]; ok {
			return v
		}
	}
	ev.fail("cannot take address of %q", e.Text)
	return nil
}

func (v *Verifier) vacuity(st *State, what string) {
	v.vacProbes++
	script := Script(append([]*Term{}, st.pc...), false)
	res := Solve(script, 10, false, false)
	if res.Status == "unsat" {
		panic(abortExec{"VACUOUS: preconditions of " + what + " are contradictory"})
	}
	v.vacOK++
}

func (v *Verifier) vacuityLate(st *State) {}


func splitAndExpr(e *Expr) []*Expr {
	if e.Op == "paren" {
		return splitAndExpr(e.Args[0])
	}
	if e.Op == "bin" && e.Name == "&&" {
		return append(splitAndExpr(e.Args[0]), splitAndExpr(e.Args[1])...)
	}
	if e.Text == "" {
		e.Text = "(conjunct)"
	}
	return []*Expr{e}
}

func (ev *Eval) tryBool(e *Expr) (t *Term, ok bool) {
	defer func() {
		if r := recover(); r != nil {
			if _, isA := r.(abortExec); isA {
				t, ok = nil, false
				return
			}
			panic(r)
		}
	}()
	return ev.boolExpr(e), true
}
