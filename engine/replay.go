package main

// Replay of failed obligations against the real code.
//
// Two routes: (1) hand-written input builders in /verif/replay/builders (index.json maps an
// obligation name to an in-package Go test that constructs a real input from the witness and
// runs the real function); (2) for functions whose inputs are plain scalars/slices, a test is
// generated from the solver model (autoReplay). Both are injected with `go test -overlay`,
// nothing is written into /repo.

import (
	"bytes"
	"context"
	"encoding/json"
	"fmt"
	"os"
	"os/exec"
	"path/filepath"
	"strings"
	"time"
)

type builderEntry struct {
	Obligation string `json:"obligation"`
	Module     string `json:"module"` // module dir relative to repo ("." for root)
	PkgDir     string `json:"pkgdir"` // package dir relative to module
	File       string `json:"file"`   // file under replay/builders
	Test       string `json:"test"`
	Race       bool   `json:"race,omitempty"`
}

func loadBuilders(verif string) []builderEntry {
	b, err := os.ReadFile(filepath.Join(verif, "replay", "builders", "index.json"))
	if err != nil {
		return nil
	}
	var out []builderEntry
	if err := json.Unmarshal(b, &out); err != nil {
		fmt.Println("govc: bad replay/builders/index.json:", err)
	}
	return out
}

func runOverlayTest(repo, module, pkgdir, testSrcPath, testName string, race bool, extraEnv []string) (string, error) {
	modDir := filepath.Join(repo, module)
	tmp, err := os.MkdirTemp("", "govc-replay-*")
	if err != nil {
		return "", err
	}
	defer os.RemoveAll(tmp)
	target := filepath.Join(modDir, pkgdir, "zz_govc_replay_test.go")
	ov := map[string]map[string]string{"Replace": {target: testSrcPath}}
	ob, _ := json.Marshal(ov)
	ovPath := filepath.Join(tmp, "overlay.json")
	os.WriteFile(ovPath, ob, 0o644)
	args := []string{"test", "-overlay", ovPath, "-vet=off", "-count=1", "-timeout", "120s", "-run", "^" + testName + "$", "-v"}
	if race {
		args = append(args, "-race")
	}
	args = append(args, "./"+pkgdir)
	ctx, cancel := context.WithTimeout(context.Background(), 300*time.Second)
	defer cancel()
	cmd := exec.CommandContext(ctx, "go", args...)
	cmd.Dir = modDir
	cmd.Env = append(os.Environ(), "GOFLAGS=-mod=mod", "GOPROXY=off", "GOTOOLCHAIN=local")
	cmd.Env = append(cmd.Env, extraEnv...)
	var out bytes.Buffer
	cmd.Stdout = &out
	cmd.Stderr = &out
	err = cmd.Run()
	s := out.String()
	if len(s) > 8000 {
		s = s[:4000] + "\n...\n" + s[len(s)-4000:]
	}
	return s, err
}

func tryReplay(opt Options, ob *Obligation, inputs map[string]string) (outcome, log, src string) {
	for _, be := range loadBuilders(opt.Verif) {
		if be.Obligation != ob.Name {
			continue
		}
		path := filepath.Join(opt.Verif, "replay", "builders", be.File)
		srcB, _ := os.ReadFile(path)
		var env []string
		for k, v := range inputs {
			env = append(env, "GOVC_"+strings.NewReplacer("!", "_", "^", "_", ".", "_").Replace(k)+"="+v)
		}
		out, _ := runOverlayTest(opt.Repo, be.Module, be.PkgDir, path, be.Test, be.Race, env)
		switch {
		case strings.Contains(out, "WARNING: DATA RACE") || strings.Contains(out, "fatal error:"):
			return "reproduced", out, string(srcB)
		case strings.Contains(out, "GOVC-REPRODUCED"):
			return "reproduced", out, string(srcB)
		case strings.Contains(out, "GOVC-NOT-REPRODUCED"):
			return "not-reproduced", out, string(srcB)
		}
		// a crash of the test binary (fatal error, stack overflow, data race report) also counts
		if strings.Contains(out, "fatal error:") || strings.Contains(out, "WARNING: DATA RACE") || strings.Contains(out, "panic:") {
			return "reproduced", out, string(srcB)
		}
		return "not-reproduced", out, string(srcB)
	}
	if ob.Result == nil || ob.Result.Status != "sat" {
		return "not-replayable", "", ""
	}
	return autoReplay(opt, ob, inputs)
}

func RunReplay(args []string) int {
	if len(args) < 1 {
		fmt.Println("usage: govc replay <replay.json>")
		return 2
	}
	b, err := os.ReadFile(args[0])
	if err != nil {
		fmt.Println(err)
		return 2
	}
	var rf replayFile
	if err := json.Unmarshal(b, &rf); err != nil {
		fmt.Println(err)
		return 2
	}
	fmt.Printf("property:   %s\nobligation: %s\nfunction:   %s (%s)\nclause:     %s\nsolver:     %s -> %s\n", rf.Property, rf.Obligation, rf.Function, rf.Position, rf.Clause, rf.Solver, rf.Status)
	if len(rf.Inputs) > 0 {
		fmt.Println("entry values from the solver model:")
		for k, v := range rf.Inputs {
			fmt.Printf("  %s = %s\n", k, v)
		}
	}
	fmt.Println("recorded replay outcome:", rf.Replay)
	opt := Options{Repo: "/repo", Verif: "/verif"}
	ob := &Obligation{Name: rf.Obligation, Func: rf.Function}
	outcome, log, _ := tryReplay(opt, ob, rf.Inputs)
	if outcome == "not-replayable" && rf.TestSource != "" {
		outcome, log = rerunGenerated(opt, rf)
	}
	fmt.Println("replay now:", outcome)
	fmt.Println(log)
	if outcome == "reproduced" {
		return 1
	}
	return 0
}
