package main

import (
	"fmt"
	"os"
	"go/token"
	"go/types"
	"strings"

	"golang.org/x/tools/go/ssa"
)

type nativeFn func(v *Verifier, s *State, c *ssa.CallCommon, callee *ssa.Function, args []*Value, pos token.Pos) *Value

var natives map[string]nativeFn

func init() {
	natives = map[string]nativeFn{
		"(*sync.Mutex).Lock":      func(v *Verifier, s *State, c *ssa.CallCommon, f *ssa.Function, a []*Value, p token.Pos) *Value { v.lock(s, a[0], true, p); return nil },
		"(*sync.Mutex).Unlock":    func(v *Verifier, s *State, c *ssa.CallCommon, f *ssa.Function, a []*Value, p token.Pos) *Value { v.unlock(s, a[0], true, p); return nil },
		"(*sync.RWMutex).Lock":    func(v *Verifier, s *State, c *ssa.CallCommon, f *ssa.Function, a []*Value, p token.Pos) *Value { v.lock(s, a[0], true, p); return nil },
		"(*sync.RWMutex).Unlock":  func(v *Verifier, s *State, c *ssa.CallCommon, f *ssa.Function, a []*Value, p token.Pos) *Value { v.unlock(s, a[0], true, p); return nil },
		"(*sync.RWMutex).RLock":   func(v *Verifier, s *State, c *ssa.CallCommon, f *ssa.Function, a []*Value, p token.Pos) *Value { v.lock(s, a[0], false, p); return nil },
		"(*sync.RWMutex).RUnlock": func(v *Verifier, s *State, c *ssa.CallCommon, f *ssa.Function, a []*Value, p token.Pos) *Value { v.unlock(s, a[0], false, p); return nil },
		"(*sync.Once).Do":         nativeOnceDo,
		"sort.Search":             nativeSortSearch,
		"sort.Slice":              nativeSortSlice,
		"sort.SliceStable":        nativeSortSlice,
		"errors.New":              nativeNonNilErr,
		"fmt.Errorf":              nativeNonNilErr,
		"github.com/pkg/errors.New":    nativeNonNilErr,
		"github.com/pkg/errors.Errorf": nativeNonNilErr,
		"github.com/pkg/errors.Wrap":   nativeWrapErr,
		"github.com/pkg/errors.Wrapf":  nativeWrapErr,
		"fmt.Sprintf":             nativeSprintf,
		"fmt.Sprint":              nativeFreshPure,
		"(*sync.WaitGroup).Add":   nativeNop,
		"(*sync.WaitGroup).Done":  nativeNop,
		"(*sync.WaitGroup).Wait":  nativeNop,
		"time.Now":                nativeFreshPure,
		"time.Since":              nativeFreshPure,
		"(time.Time).Sub":         nativeFreshPure,
		"(time.Duration).Seconds": nativeFreshPure,
		"context.Background":      nativeNonNilIface,
		"sync/atomic.AddInt64":    nativeAtomicAdd,
		"sync/atomic.AddInt32":    nativeAtomicAdd,
		"sync/atomic.AddUint64":   nativeAtomicAdd,
		"sync/atomic.AddUint32":   nativeAtomicAdd,
		"sync/atomic.LoadInt64":   nativeAtomicLoad,
		"sync/atomic.LoadInt32":   nativeAtomicLoad,
		"sync/atomic.LoadUint64":  nativeAtomicLoad,
		"sync/atomic.LoadUint32":  nativeAtomicLoad,
		"sync/atomic.StoreInt64":  nativeAtomicStore,
		"sync/atomic.StoreInt32":  nativeAtomicStore,
		"sync/atomic.StoreUint64": nativeAtomicStore,
		"sync/atomic.StoreUint32": nativeAtomicStore,
		"context.TODO":            nativeNonNilIface,
	}
}

func nativeNop(v *Verifier, s *State, c *ssa.CallCommon, f *ssa.Function, a []*Value, p token.Pos) *Value {
	return nil
}

func nativeFreshPure(v *Verifier, s *State, c *ssa.CallCommon, f *ssa.Function, a []*Value, p token.Pos) *Value {
	rt := resultType(c)
	if rt == nil {
		return nil
	}
	return freshValue("ret!"+f.Name(), rt)
}

func nativeNonNilErr(v *Verifier, s *State, c *ssa.CallCommon, f *ssa.Function, a []*Value, p token.Pos) *Value {
	r := freshValue("err!"+f.Name(), resultType(c))
	s.assume(Gt(r.L[0], Int(0)))
	return r
}

func nativeNonNilIface(v *Verifier, s *State, c *ssa.CallCommon, f *ssa.Function, a []*Value, p token.Pos) *Value {
	r := freshValue("ret!"+f.Name(), resultType(c))
	s.assume(Gt(r.L[0], Int(0)))
	return r
}

func nativeWrapErr(v *Verifier, s *State, c *ssa.CallCommon, f *ssa.Function, a []*Value, p token.Pos) *Value {
	r := freshValue("err!"+f.Name(), resultType(c))
	// Wrap(nil) == nil
	s.assume(Iff(Eq(r.L[0], Int(0)), Eq(a[0].L[0], Int(0))))
	return r
}

// ---------- monitors ----------

func (v *Verifier) lockKey(mu *Value) (key string, obj *Term, st types.Type, field string) {
	if mu.LV != nil && mu.LV.kind == lvField && len(mu.LV.path) == 0 {
		u := under(mu.LV.st).(*types.Struct)
		return fmt.Sprintf("%d.%s.%s", mu.LV.obj.id, typeName(mu.LV.st), u.Field(mu.LV.field).Name()), mu.LV.obj, mu.LV.st, u.Field(mu.LV.field).Name()
	}
	if mu.LV != nil {
		return "lv:" + mu.LV.key(), nil, nil, ""
	}
	return fmt.Sprintf("t%d", mu.L[0].id), nil, nil, ""
}

func (v *Verifier) typeContractFor(st types.Type) *TypeContract {
	if st == nil {
		return nil
	}
	return v.contracts.types[typeName(st)]
}

func (v *Verifier) lock(s *State, mu *Value, write bool, pos token.Pos) {
	key, obj, st, field := v.lockKey(mu)
	if os.Getenv("GOVC_DEBUG") != "" {
		fn := "<nil>"
		if s.frame != nil {
			fn = funcRef(s.frame.fn)
		}
		fmt.Fprintf(os.Stderr, "DEBUG lock key=%s field=%s in %s top=%s\n", key, field, fn, funcRef(v.top))
	}
	for _, h := range s.held {
		if h.key == key {
			v.addOb(s, "lock", pos, False, "re-entrant lock of "+field+" (self-deadlock)", nil)
		}
	}
	s.held = append(s.held, heldLock{key: key, write: write, obj: obj, st: st, mu: field})
	tc := v.typeContractFor(st)
	if tc == nil || obj == nil {
		return
	}
	u := under(st).(*types.Struct)
	if len(tc.Guards[field]) > 0 {
		s.bumpWM() // other critical sections may have allocated
	}
	for _, gf := range tc.Guards[field] {
		found := false
		if strings.HasPrefix(gf, "ghost ") {
			// the contents of a ghost map variable are protected by this mutex
			gn := strings.TrimSpace(strings.TrimPrefix(gf, "ghost "))
			g, ok := s.ghost[gn]
			if !ok || !isMap(g.T) {
				v.abort("CONTRACT-STALE: guards: %q is not a ghost map of this package", gn)
			}
			ms := map[string]Sort{}
			addMapKeys(ms, g.T)
			for _, k := range sortedKeys(ms) {
				h := s.heapArr(k, ms[k])
				_, inner, _ := arrayParts(ms[k])
				s.heap[k] = Store(h, g.term(), Fresh("locked!"+gn, inner))
			}
			v.assumeMapValuesAllocated(s, g)
			continue
		}
		if gf == "once" {
			// every sync.Once flag may have been set by another critical section
			// every free-standing sync.Once (closure locals) may have fired in another critical section
			s.heap["O:ptr"] = Fresh("locked!O_ptr", onceSort)
			continue
		}
		if k := strings.Index(gf, "."); k > 0 {
			// Type.field: the whole field heap of another type of this package is protected by this mutex
			ot := v.lookupNamedType(shortPkg(typePkg(st).Path()) + "." + gf[:k])
			if ot == nil {
				v.abort("CONTRACT-STALE: guards: unknown type %s", gf[:k])
			}
			ou := under(ot).(*types.Struct)
			done := false
			for i := 0; i < ou.NumFields(); i++ {
				if ou.Field(i).Name() == gf[k+1:] {
					if typeName(ou.Field(i).Type()) == "sync.Once" {
						n := "O:" + typeName(ot) + "." + ou.Field(i).Name()
						s.heap[n] = Fresh("locked!"+n, onceSort)
					} else {
						for _, hk := range heapKeys(structFieldBase(ot, i), ou.Field(i).Type(), SInt) {
							s.freshHeap("locked!", hk.name, hk.sort)
						}
					}
					done = true
				}
			}
			if otc := v.contracts.types[typeName(ot)]; otc != nil && !done {
				for _, g := range otc.Ghost {
					if g.Name == gf[k+1:] {
						ev := &Eval{v: v, st: s, pkg: typePkg(st)}
						gt := ev.resolveType(g.Typ)
						for _, hk := range heapKeys("G:"+typeName(ot)+"."+g.Name, gt, SInt) {
							s.heap[hk.name] = Fresh("locked!"+hk.name, hk.sort)
						}
						done = true
					}
				}
			}
			if !done {
				v.abort("CONTRACT-STALE: guards: unknown field %s", gf)
			}
			continue
		}
		for i := 0; i < u.NumFields(); i++ {
			if u.Field(i).Name() == gf {
				found = true
				nv := freshValue("locked!"+gf, u.Field(i).Type())
				s.assumeAllocated(nv)
				s.storeStructField(obj, st, i, nv)
				v.assumeMapValuesAllocated(s, nv)
			}
		}
		if !found {
			// ghost field
			for _, g := range tc.Ghost {
				if g.Name == gf {
					found = true
					ev := &Eval{v: v, st: s, pkg: typePkg(st)}
					gt := ev.resolveType(g.Typ)
					for _, hk := range heapKeys("G:"+typeName(st)+"."+gf, gt, SInt) {
						_, inner, _ := arrayParts(hk.sort)
						s.heap[hk.name] = Store(s.heapArr(hk.name, hk.sort), obj, Fresh("locked!"+hk.name, inner))
					}
				}
			}
		}
		if !found {
			v.abort("CONTRACT-STALE: type %s guards unknown field %s", tc.Key, gf)
		}
	}
	for _, inv := range tc.Invs[field] {
		ev := &Eval{v: v, st: s, old: s, env: map[string]*Value{"self": scalar(types.NewPointer(st), obj)}, mode: evalCall, pkg: typePkg(st)}
		s.assume(ev.boolExpr(inv.Expr))
	}
	// protocol assumptions of the function under verification about guarded state (e.g. "this done func still owns one
	// holder unit"): assumed right after the first guarded Lock, and listed
	if s.frame != nil && s.frame.fn == v.top && v.topC != nil && len(tc.Guards[field]) > 0 && s.lockSnap == nil {
		for _, c := range v.topC.AssumeLocked {
			ev := v.newEval(s, v.top, v.topCells, evalLoop)
			s.assume(ev.boolExpr(c.Expr))
			v.assumptions["protocol assumption of "+funcRef(v.top)+" (assumelocked): "+c.Text] = true
		}
	}
	// snapshot for locked(e): the state right after the first acquisition of a monitor in the function under verification
	if len(tc.Guards[field]) > 0 {
		s.ghost["$didlock"] = scalar(types.Typ[types.Bool], True)
	}
	if s.frame != nil && s.frame.fn == v.top && s.lockSnap == nil && len(tc.Guards[field]) > 0 {
		s.lockSnap = s.clone()
	}
}

func typePkg(t types.Type) *types.Package {
	if n, ok := types.Unalias(t).(*types.Named); ok {
		return n.Obj().Pkg()
	}
	return nil
}

func (v *Verifier) unlock(s *State, mu *Value, write bool, pos token.Pos) {
	key, obj, st, field := v.lockKey(mu)
	idx := -1
	for i, h := range s.held {
		if h.key == key {
			idx = i
		}
	}
	if idx < 0 {
		if os.Getenv("GOVC_DEBUG") != "" {
			fmt.Fprintf(os.Stderr, "DEBUG unlock key=%s held=%v mu=%v LV=%v\n", key, s.held, mu.L, mu.LV)
		}
		v.addOb(s, "lock", pos, False, "unlock of "+field+" which is not held on this path", nil)
		return
	}
	if tc := v.typeContractFor(st); tc != nil && obj != nil && s.held[idx].write {
		for _, inv := range tc.Invs[field] {
			ev := &Eval{v: v, st: s, old: s, env: map[string]*Value{"self": scalar(types.NewPointer(st), obj)}, mode: evalCall, pkg: typePkg(st)}
			v.addOb(s, "monitor", pos, ev.boolExpr(inv.Expr), "invariant "+field+": "+inv.Text, inv.Props)
		}
	}
	s.held = append(append([]heldLock(nil), s.held[:idx]...), s.held[idx+1:]...)
}

func (v *Verifier) isHeld(s *State, mu *Value) bool {
	key, _, _, _ := v.lockKey(mu)
	for _, h := range s.held {
		if h.key == key {
			return true
		}
	}
	return false
}

// checkGuard emits a lock-discipline obligation for accesses to guarded fields.
func (v *Verifier) checkGuard(s *State, lv *LValue, write bool, pos token.Pos) {
	if lv.kind != lvField {
		return
	}
	tc := v.typeContractFor(lv.st)
	if tc == nil || len(tc.Guards) == 0 {
		return
	}
	u := under(lv.st).(*types.Struct)
	fname := u.Field(lv.field).Name()
	for mu, fields := range tc.Guards {
		for _, f := range fields {
			if f != fname {
				continue
			}
			// objects allocated by the function under verification are not shared yet
			if lv.obj.op == "const" && strings.HasPrefix(lv.obj.name, "ref!") {
				return
			}
			var alts []*Term
			for _, h := range s.held {
				if h.mu == mu && h.obj != nil && h.st != nil && typeName(h.st) == typeName(lv.st) && (h.write || !write) {
					alts = append(alts, Eq(h.obj, lv.obj))
				}
			}
			acc := "read"
			if write {
				acc = "write"
			}
			v.addOb(s, "lock", pos, Or(alts...), fmt.Sprintf("%s of %s.%s requires %s", acc, typeName(lv.st), fname, mu), tc.GuardProps[mu])
			return
		}
	}
}

// ---------- sync.Once ----------

func nativeOnceDo(v *Verifier, s *State, c *ssa.CallCommon, f *ssa.Function, a []*Value, p token.Pos) *Value {
	once := a[0]
	fn := a[1]
	if once.L[0] == nil || fn.Clo == nil {
		s.note("sync.Once.Do with unknown function")
		v.trusted["sync.Once.Do(<unknown>)"] = true
		return nil
	}
	slot, idx := onceSlot(once)
	h := s.heapArr(slot, onceSort)
	done := Select(h, idx)
	// run f in a branch where !done
	run := s.clone()
	run.assume(Not(done))
	run.heap[slot] = Store(h, idx, True)
	v.inline(run, fn.Clo.Fn, nil, fn.Clo, p)
	skip := s.clone()
	skip.assume(done)
	var sts []*State
	if !run.dead {
		sts = append(sts, run)
	}
	sts = append(sts, skip)
	m := mergeStates(sts)
	for _, x := range m[1:] {
		v.forks = append(v.forks, fork{st: x})
	}
	*s = *m[0]
	return nil
}

// ---------- sort.Search ----------

func nativeSortSearch(v *Verifier, s *State, c *ssa.CallCommon, f *ssa.Function, a []*Value, p token.Pos) *Value {
	n := a[0].term()
	fn := a[1]
	r := Fresh("search", SInt)
	addFact(r, inRange(r, types.Typ[types.Int]))
	if fn.Clo == nil {
		s.assume(And(Le(Int(0), r), Le(r, Ite(Ge(n, Int(0)), n, Int(0)))))
		s.note("sort.Search with unknown predicate")
		return scalar(types.Typ[types.Int], r)
	}
	intT := types.Typ[types.Int]
	v.noFork++
	defer func() { v.noFork-- }()
	// obligations of the predicate for every i in [0,n)
	{
		probe := s.clone()
		i := Fresh("search!i", SInt)
		probe.assume(And(Le(Int(0), i), Lt(i, n)))
		v.inline(probe, fn.Clo.Fn, []*Value{scalar(intT, i)}, fn.Clo, p)
	}
	s.assume(And(Le(Int(0), r), Le(r, Ite(Ge(n, Int(0)), n, Int(0)))))
	// f(r) holds when r < n
	{
		st := s.clone()
		st.assume(Lt(r, n))
		res := v.inline(st, fn.Clo.Fn, []*Value{scalar(intT, r)}, fn.Clo, p)
		if os.Getenv("GOVC_DEBUG") != "" {
			fmt.Fprintf(os.Stderr, "DEBUG sort.Search f(r): res=%v dead=%v forks=%d\n", res != nil, st.dead, len(v.forks))
			if res != nil {
				fmt.Fprintf(os.Stderr, "DEBUG   term=%s\n", trunc(res.term().String(), 300))
			}
		}
		if res != nil && !st.dead {
			s.assume(Implies(Lt(r, n), res.term()))
		}
	}
	{
		st := s.clone()
		st.assume(Gt(r, Int(0)))
		res := v.inline(st, fn.Clo.Fn, []*Value{scalar(intT, Sub(r, Int(1)))}, fn.Clo, p)
		if res != nil && !st.dead {
			s.assume(Implies(Gt(r, Int(0)), Not(res.term())))
		}
	}
	v.assumptions["sort.Search: binary-search contract (0<=r<=n, f(r) if r<n, !f(r-1) if r>0) for a predicate without side effects"] = true
	return scalar(intT, r)
}

// ---------- sort.Slice ----------
// ASSUMED contract of sort.Slice(x, less) for a side-effect-free less: afterwards the window of x is a rearrangement
// of what it held (every element is one of the old elements: perm) and no later element is less than an earlier one.
var sortSeq int

func nativeSortSlice(v *Verifier, s *State, c *ssa.CallCommon, f *ssa.Function, a []*Value, p token.Pos) *Value {
	mi, ok := c.Args[0].(*ssa.MakeInterface)
	if !ok {
		v.havocPointees(s, a)
		s.note("sort.Slice of a value that is not a slice expression: elements unknown")
		return nil
	}
	sl := v.reg(s, mi.X)
	stt, ok := under(mi.X.Type()).(*types.Slice)
	if !ok || sl == nil || len(sl.L) < 3 {
		v.havocPointees(s, a)
		return nil
	}
	et := stt.Elem()
	sortSeq++
	perm := fmt.Sprintf("sortperm!%d", sortSeq)
	k := BoundVar("k!sort", SInt)
	inWin := And(Le(Int(0), k), Lt(k, sl.sLen()))
	pk := App(perm, SInt, k)
	for _, hk := range heapKeys(elemBase(et), et, SInt, SInt) {
		h := s.heapArr(hk.name, hk.sort)
		_, inner, _ := arrayParts(hk.sort)
		oldIn := Select(h, sl.sArr())
		nw := Fresh("sorted!"+hk.name, inner)
		s.heap[hk.name] = Store(h, sl.sArr(), nw)
		addFact(nw, Forall([]*Term{k}, Implies(inWin, And(Le(Int(0), pk), Lt(pk, sl.sLen()), Eq(Select(nw, Elt(sl.sOff(), k)), Select(oldIn, Elt(sl.sOff(), pk))))), []*Term{Select(nw, Elt(sl.sOff(), k))}))
	}
	v.assumptions["sort.Slice: the slice is rearranged (every element afterwards is one of the elements before) and ordered by a side-effect-free less function"] = true
	less := a[1]
	if less == nil || less.Clo == nil {
		s.note("sort.Slice with unknown less function")
		return nil
	}
	v.noFork++
	defer func() { v.noFork-- }()
	intT := types.Typ[types.Int]
	i := Fresh("sort!i", SInt)
	j := Fresh("sort!j", SInt)
	st := s.clone()
	st.assume(And(Le(Int(0), i), Lt(i, sl.sLen()), Le(Int(0), j), Lt(j, sl.sLen())))
	res := v.inline(st, less.Clo.Fn, []*Value{scalar(intT, i), scalar(intT, j)}, less.Clo, p)
	if res != nil && !st.dead {
		bi := BoundVar("i!sort", SInt)
		bj := BoundVar("j!sort", SInt)
		// no later element is less than an earlier one: !less(j, i) for i < j
		body := Subst(res.term(), map[*Term]*Term{i: bj, j: bi})
		guard := And(Le(Int(0), bi), Lt(bi, bj), Lt(bj, sl.sLen()))
		s.assume(Forall([]*Term{bi, bj}, Implies(guard, Not(body))))
	}
	return nil
}

// ---------- callbacks ----------

func (v *Verifier) callbackContract(s *State, c *ssa.CallCommon, fv *Value) *Iterates {
	// the called value is a parameter of the function under verification with an `iterates` clause
	fc := v.contracts.forFunc(s.frame.fn)
	if fc == nil {
		return nil
	}
	name := ""
	switch x := c.Value.(type) {
	case *ssa.Parameter:
		name = x.Name()
	case *ssa.UnOp:
		if a, ok := x.X.(*ssa.Alloc); ok {
			name = a.Comment
		}
	}
	for _, it := range fc.Iterates {
		if it.Param == name {
			return it
		}
	}
	return nil
}

func (v *Verifier) applyCallback(s *State, it *Iterates, c *ssa.CallCommon, args []*Value, pos token.Pos) *Value {
	ev := v.newEval(s, s.frame.fn, v.curCells, evalLoop)
	for i, n := range it.Vars {
		if i < len(args) {
			ev.env[n] = args[i]
		}
	}
	v.addOb(s, "pre", pos, ev.boolExpr(it.Where), "iterates "+it.Text, it.Props)
	v.assumptions["callback "+it.Param+" of "+funcRef(s.frame.fn)+": result havoc'd, assumed not to modify the caller's state"] = true
	return v.havocResult(s, resultType(c), "callback")
}


// assumeMapValuesAllocated: every reference stored in a map that exists now was allocated before now.
func (v *Verifier) assumeMapValuesAllocated(s *State, m *Value) {
	mt, ok := under(m.T).(*types.Map)
	if !ok {
		return
	}
	ks := mapKeySorts(mt)
	var keys []*Term
	for i, k := range ks {
		keys = append(keys, BoundVar(fmt.Sprintf("k!alloc%d", i), k))
	}
	for _, sp := range leafSpecs(mt.Elem()) {
		isRef := sp.Kind == "arr" || sp.Kind == "data" || (sp.Kind == "" && sp.GoT != nil && sp.Sort == SInt && !isInteger(sp.GoT) && !isFloat(sp.GoT))
		if !isRef {
			continue
		}
		h := s.heapArr(mapValHeap(m.T, sp, ks), ArrSort(SInt, nestSort(ks, sp.Sort)))
		sel := selectN(Select(h, m.term()), keys)
		s.assume(Forall(keys, Le(sel, s.wm), []*Term{sel}))
	}
}


// ---------- sync/atomic: plain loads and stores that are exempt from the lock discipline ----------

func (v *Verifier) atomicLV(s *State, p *Value, pos token.Pos) *LValue {
	if p.LV != nil {
		return p.LV
	}
	et := under(p.T).(*types.Pointer).Elem()
	v.nilCheck(s, p.term(), pos)
	return &LValue{kind: lvPtr, obj: p.term(), t: et, rootT: et}
}

func nativeAtomicLoad(v *Verifier, s *State, c *ssa.CallCommon, f *ssa.Function, a []*Value, p token.Pos) *Value {
	lv := v.atomicLV(s, a[0], p)
	val := s.load(lv)
	return &Value{T: resultType(c), L: val.L}
}

func nativeAtomicStore(v *Verifier, s *State, c *ssa.CallCommon, f *ssa.Function, a []*Value, p token.Pos) *Value {
	lv := v.atomicLV(s, a[0], p)
	s.store(lv, &Value{T: lv.t, L: a[1].L})
	return nil
}

func nativeAtomicAdd(v *Verifier, s *State, c *ssa.CallCommon, f *ssa.Function, a []*Value, p token.Pos) *Value {
	lv := v.atomicLV(s, a[0], p)
	val := s.load(lv)
	n := wrapInt(Add(val.term(), a[1].term()), lv.t, true)
	s.store(lv, scalar(lv.t, n))
	return scalar(resultType(c), n)
}


// fmt.Sprintf: fresh string whose length is at least the number of literal (non-verb) bytes of a constant format.
func nativeSprintf(v *Verifier, s *State, c *ssa.CallCommon, f *ssa.Function, a []*Value, p token.Pos) *Value {
	r := freshValue("ret!Sprintf", resultType(c))
	// Sprintf is a function of its arguments: with a constant format and a variadic slice of known length whose
	// elements have known dynamic types, the result is the uninterpreted term sprintf!<fmt>(args)
	if ft := sprintfTerm(v, s, a); ft != nil {
		r = scalar(resultType(c), ft)
		sl := App("slen", SInt, ft)
		addFact(ft, And(Le(Int(0), sl), Le(sl, maxLen)))
	}
	if len(a) > 0 && a[0].L[0] != nil {
		for lit, t := range TS.strLits {
			if t == a[0].L[0] {
				n := 0
				for i := 0; i < len(lit); i++ {
					if lit[i] == '%' {
						// skip the verb
						i++
						for i < len(lit) && !((lit[i] >= 'a' && lit[i] <= 'z') || (lit[i] >= 'A' && lit[i] <= 'Z') || lit[i] == '%') {
							i++
						}
						if i < len(lit) && lit[i] == '%' {
							n++
						}
						continue
					}
					n++
				}
				s.assume(Ge(App("slen", SInt, r.term()), Int(int64(n))))
				v.assumptions["fmt.Sprintf: the result is at least as long as the literal text of a constant format string"] = true
			}
		}
	}
	return r
}


// onceSlot: where the "has fired" flag of a sync.Once lives. A Once that is a field of a struct object is kept in a
// per-(type, field) heap indexed by the object reference (no address arithmetic, so quantifying over object references
// cannot collide with other memory); any other Once (a captured local) is kept in "O:ptr" indexed by its address.
func onceSlot(p *Value) (string, *Term) {
	if p.LV != nil && p.LV.kind == lvField && len(p.LV.path) == 0 {
		u := under(p.LV.st).(*types.Struct)
		return "O:" + typeName(p.LV.st) + "." + u.Field(p.LV.field).Name(), p.LV.obj
	}
	return "O:ptr", p.L[0]
}

var onceSort = ArrSort(SInt, SBool)


func litOf(t *Term) (string, bool) {
	for lit, x := range TS.strLits {
		if x == t {
			return lit, true
		}
	}
	return "", false
}

func sprintfTerm(v *Verifier, s *State, a []*Value) *Term {
	if len(a) < 2 || a[0].L[0] == nil || !isSlice(a[1].T) {
		return nil
	}
	lit, ok := litOf(a[0].L[0])
	if !ok {
		return nil
	}
	n := a[1].sLen()
	if !n.isInt() || !n.ival.IsInt64() || n.ival.Int64() > 8 {
		return nil
	}
	et := under(a[1].T).(*types.Slice).Elem()
	var args []*Term
	for i := int64(0); i < n.ival.Int64(); i++ {
		ev := s.loadElem(a[1].sArr(), Elt(a[1].sOff(), Int(i)), et)
		if !isIface(et) || !ev.L[0].isInt() {
			return nil
		}
		ct, ok := typeIDTypes[ev.L[0].ival.Int64()]
		if !ok {
			return nil
		}
		uv := v.unbox(s, ev, ct)
		for _, l := range uv.L {
			if l == nil {
				return nil
			}
			args = append(args, l)
		}
	}
	return App("sprintf!"+lit+sortSig(args), SStr, args...)
}


func sortSig(args []*Term) string {
	sig := "!"
	for _, a := range args {
		switch a.sort {
		case SInt:
			sig += "i"
		case SStr:
			sig += "s"
		case SBool:
			sig += "b"
		default:
			sig += "x"
		}
	}
	return sig
}
