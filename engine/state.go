package main

import (
	"fmt"
	"go/types"
	"sort"
	"strings"

	"golang.org/x/tools/go/ssa"
)

// Value is a flat symbolic value of a Go type.
type Value struct {
	T   types.Type
	L   []*Term
	LV  *LValue  // pointer values with a Go-side address
	Clo *Closure // func values known on the path
	Orig string  // provenance of func values: "global:<pkg>.<Var>" or "field:<Type>.<field>"
	OrigObj *Term // for field provenance: the object the func value was loaded from
}

type Closure struct {
	Fn    *ssa.Function
	Binds []*Value
}

type Cell struct {
	Name string
	T    types.Type
	id   int
	Pos  int // token.Pos of the alloc
}

type pathElem struct {
	lo, hi int   // leaf sub-range (field select)
	idx    *Term // array index (into array-sorted leaves)
	t      types.Type
}

// LValue kinds
const (
	lvCell  = iota // local cell (+path)
	lvField        // heap struct field: obj ref, struct type, field index (+path into the field value)
	lvElem         // slice element: arr, idx, elem type (+path)
	lvPtr          // pointer to non-struct heap value: addr, type
)

type LValue struct {
	kind  int
	cell  *Cell
	obj   *Term // lvField: object ref; lvElem: arr; lvPtr: addr
	idx   *Term // lvElem: absolute index
	st    types.Type // lvField: the (named) struct type
	field int
	t     types.Type // type of the addressed location (after path)
	rootT types.Type // type of the root location (before path)
	path  []pathElem
}

func (lv *LValue) key() string {
	var sb strings.Builder
	switch lv.kind {
	case lvCell:
		fmt.Fprintf(&sb, "c%d", lv.cell.id)
	case lvField:
		fmt.Fprintf(&sb, "f%d.%s.%d", lv.obj.id, typeName(lv.st), lv.field)
	case lvElem:
		fmt.Fprintf(&sb, "e%d[%d]", lv.obj.id, lv.idx.id)
	case lvPtr:
		fmt.Fprintf(&sb, "p%d", lv.obj.id)
	}
	for _, p := range lv.path {
		if p.idx != nil {
			fmt.Fprintf(&sb, "[%d]", p.idx.id)
		} else {
			fmt.Fprintf(&sb, ".%d:%d", p.lo, p.hi)
		}
	}
	return sb.String()
}

type deferred struct {
	call  *ssa.Defer
	args  []*Value // evaluated args (incl. receiver / closure)
	fnVal *Value
}

type heldLock struct {
	key   string // identity of mutex
	write bool
	obj   *Term  // owning object ref (if known)
	st    types.Type
	mu    string // field name of mutex
}

type Frame struct {
	fn     *ssa.Function
	regs   map[ssa.Value]*Value
	parent *Frame
	defers []deferred
	depth  int
}

type State struct {
	pc    []*Term
	cells map[*Cell]*Value
	heap  map[string]*Term
	wm    *Term
	frame *Frame
	held  []heldLock
	ghost map[string]*Value
	notes []string // imprecision notes
	dead  bool
	lockSnap *State // state right after the first guarded Lock on this path (for locked(e))
	snaps    map[string]*State // named snapshots (loop heads for prev(e))
	lazyHavoc []lazyHavoc      // whole-family havocs that also cover heap arrays not materialised yet
	spawned   []*ssa.Function  // functions run by goroutines started on this path (their writes interfere from then on)
}

type lazyHavoc struct {
	prefix string
	wm     *Term
}

func (s *State) clone() *State {
	n := &State{wm: s.wm}
	n.pc = append([]*Term(nil), s.pc...)
	n.cells = make(map[*Cell]*Value, len(s.cells))
	for k, v := range s.cells {
		n.cells[k] = v
	}
	n.heap = make(map[string]*Term, len(s.heap))
	for k, v := range s.heap {
		n.heap[k] = v
	}
	n.ghost = make(map[string]*Value, len(s.ghost))
	for k, v := range s.ghost {
		n.ghost[k] = v
	}
	n.held = append([]heldLock(nil), s.held...)
	n.notes = append([]string(nil), s.notes...)
	n.lockSnap = s.lockSnap
	n.lazyHavoc = s.lazyHavoc
	n.spawned = s.spawned
	if len(s.snaps) > 0 {
		n.snaps = make(map[string]*State, len(s.snaps))
		for k, v := range s.snaps {
			n.snaps[k] = v
		}
	}
	if s.frame != nil {
		n.frame = s.frame.clone()
	}
	return n
}

func (f *Frame) clone() *Frame {
	n := &Frame{fn: f.fn, parent: f.parent, depth: f.depth}
	n.regs = make(map[ssa.Value]*Value, len(f.regs))
	for k, v := range f.regs {
		n.regs[k] = v
	}
	n.defers = append([]deferred(nil), f.defers...)
	return n
}

func (s *State) assume(t *Term) {
	if t.isTrue() {
		return
	}
	if t.op == "and" {
		for _, a := range t.args {
			s.assume(a)
		}
		return
	}
	s.pc = append(s.pc, t)
}

func (s *State) pcTerm() *Term { return And(s.pc...) }

func (s *State) note(format string, a ...interface{}) {
	s.notes = append(s.notes, fmt.Sprintf(format, a...))
}

// ---- facts: universally valid type invariants attached to closed terms ----

var termFacts = map[int][]*Term{}

func addFact(about *Term, fact *Term) {
	if about.bound || fact.isTrue() {
		return
	}
	for _, f := range termFacts[about.id] {
		if f == fact {
			return
		}
	}
	termFacts[about.id] = append(termFacts[about.id], fact)
}

// leafFacts registers type-range facts for a leaf term of the given spec.
func leafFacts(t *Term, spec LeafSpec) {
	if t == nil || t.bound || t.isInt() {
		return
	}
	// Facts are timeless: they may only be attached to opaque terms (symbols, reads of memory, uninterpreted
	// applications), never to values computed by the program (a computed length is not yet known to be valid at
	// the make/slice site that checks it).
	if t.op == "ite" && len(t.args) == 3 {
		// a read from a merged heap: both alternatives are reads of memory
		leafFacts(t.args[1], spec)
		leafFacts(t.args[2], spec)
		return
	}
	if t.op != "const" && t.op != "select" && t.op != "app" {
		return
	}
	switch spec.Kind {
	case "len", "cap", "off":
		addFact(t, And(Le(Int(0), t), Le(t, maxLen)))
	case "arr", "tag", "data":
		addFact(t, Le(Int(0), t))
	case "":
		if spec.GoT != nil {
			if isInteger(spec.GoT) {
				addFact(t, inRange(t, spec.GoT))
			} else if spec.Sort == SStr {
				sl := App("slen", SInt, t)
				addFact(t, And(Le(Int(0), sl), Le(sl, maxLen)))
			} else if spec.Sort == SInt && !isFloat(spec.GoT) {
				addFact(t, Le(Int(0), t)) // refs are non-negative; nil == 0
			}
		}
	}
}

func opaque(t *Term) bool { return t.op == "const" || t.op == "select" || t.op == "app" }

func valueFacts(v *Value) {
	specs := leafSpecs(v.T)
	for i, l := range v.L {
		if i < len(specs) {
			leafFacts(l, specs[i])
		}
	}
	// a slice with elements has a backing array
	for i := 0; i+2 < len(v.L) && i+2 < len(specs); i++ {
		if specs[i].Kind == "arr" && specs[i+2].Kind == "len" && v.L[i] != nil && v.L[i+2] != nil &&
			!v.L[i].bound && !v.L[i+2].bound && opaque(v.L[i]) && opaque(v.L[i+2]) {
			addFact(v.L[i+2], Implies(Gt(v.L[i+2], Int(0)), Gt(v.L[i], Int(0))))
		}
	}
	// len <= cap for every slice header inside the value (also inside tuples and structs)
	for i := 0; i+1 < len(v.L) && i+1 < len(specs); i++ {
		if specs[i].Kind == "len" && specs[i+1].Kind == "cap" && v.L[i] != nil && v.L[i+1] != nil &&
			!v.L[i].bound && !v.L[i+1].bound && opaque(v.L[i]) && opaque(v.L[i+1]) {
			addFact(v.L[i], Le(v.L[i], v.L[i+1]))
		}
	}
}

// ---- value construction ----

func freshValue(hint string, t types.Type) *Value {
	specs := leafSpecs(t)
	v := &Value{T: t, L: make([]*Term, len(specs))}
	for i, sp := range specs {
		v.L[i] = Fresh(hint+sp.Suffix, sp.Sort)
	}
	valueFacts(v)
	return v
}

func namedValue(name string, t types.Type) *Value {
	specs := leafSpecs(t)
	v := &Value{T: t, L: make([]*Term, len(specs))}
	for i, sp := range specs {
		v.L[i] = Const(name+sp.Suffix, sp.Sort)
	}
	valueFacts(v)
	return v
}

func zeroLeaf(sp LeafSpec) *Term {
	switch sp.Sort {
	case SInt:
		return Int(0)
	case SBool:
		return False
	case SStr:
		return StrLit("")
	}
	// array sorts: constant array
	_, es, ok := arrayParts(sp.Sort)
	if ok {
		inner := zeroLeaf(LeafSpec{Sort: es})
		return TS.mk(&Term{op: "constarr", sort: sp.Sort, args: []*Term{inner}})
	}
	panic("zeroLeaf: " + string(sp.Sort))
}

func zeroValue(t types.Type) *Value {
	specs := leafSpecs(t)
	v := &Value{T: t, L: make([]*Term, len(specs))}
	for i, sp := range specs {
		v.L[i] = zeroLeaf(sp)
	}
	return v
}

func scalar(t types.Type, x *Term) *Value { return &Value{T: t, L: []*Term{x}} }

func (v *Value) term() *Term {
	if len(v.L) != 1 {
		panic(fmt.Sprintf("term() on non-scalar value of type %s (%d leaves)", v.T, len(v.L)))
	}
	return v.L[0]
}

func (v *Value) sub(lo, hi int, t types.Type) *Value {
	return &Value{T: t, L: v.L[lo:hi]}
}

func (v *Value) withSub(lo, hi int, nv *Value) *Value {
	n := &Value{T: v.T, L: append([]*Term(nil), v.L...)}
	copy(n.L[lo:hi], nv.L)
	return n
}

// slice accessors
func (v *Value) sArr() *Term { return v.L[0] }
func (v *Value) sOff() *Term { return v.L[1] }
func (v *Value) sLen() *Term { return v.L[2] }
func (v *Value) sCap() *Term { return v.L[3] }

func sliceValue(t types.Type, arr, off, ln, cp *Term) *Value {
	return &Value{T: t, L: []*Term{arr, off, ln, cp}}
}

func valuesEq(a, b *Value) *Term {
	if len(a.L) != len(b.L) {
		panic(fmt.Sprintf("valuesEq: leaf mismatch %s vs %s", a.T, b.T))
	}
	var cs []*Term
	for i := range a.L {
		cs = append(cs, Eq(a.L[i], b.L[i]))
	}
	return And(cs...)
}

func iteValue(c *Term, a, b *Value) *Value {
	if a == b {
		return a
	}
	n := &Value{T: a.T, L: make([]*Term, len(a.L)), LV: a.LV, Clo: a.Clo}
	for i := range a.L {
		n.L[i] = Ite(c, a.L[i], b.L[i])
	}
	return n
}

// ---- heap ----

// refHeaps: heap arrays whose leaves are references (name -> number of index levels).
var refHeaps = map[string]int{}

func isRefLeaf(sp LeafSpec) bool {
	return sp.Kind == "arr" || sp.Kind == "data" || (sp.Kind == "" && sp.GoT != nil && sp.Sort == SInt && !isInteger(sp.GoT) && !isFloat(sp.GoT))
}

// allocBoundFact: every reference stored anywhere in heap array h was allocated before the watermark wm.
func allocBoundFact(h *Term, name string, wm *Term) {
	levels, ok := refHeaps[name]
	if !ok || levels == 0 {
		return
	}
	var vars []*Term
	sel := h
	srt := h.sort
	for i := 0; i < levels; i++ {
		is, es, ok := arrayParts(srt)
		if !ok {
			return
		}
		v := BoundVar(fmt.Sprintf("ab!%d", i), is)
		vars = append(vars, v)
		sel = Select(sel, v)
		srt = es
	}
	if sel.sort != SInt {
		return
	}
	addFact(h, Forall(vars, Le(sel, wm), []*Term{sel}))
}

func (s *State) heapArr(name string, sort Sort) *Term {
	if h, ok := s.heap[name]; ok {
		return h
	}
	for i := len(s.lazyHavoc) - 1; i >= 0; i-- {
		if lh := s.lazyHavoc[i]; strings.HasPrefix(name, lh.prefix) {
			// first use after a whole-family havoc: the array is unknown, not the initial one
			h := Const(fmt.Sprintf("Hz%d!%s", i, name), sort)
			allocBoundFact(h, name, lh.wm)
			s.heap[name] = h
			return h
		}
	}
	h := Const("H0!"+name, sort)
	allocBoundFact(h, name, Const("wm0", SInt))
	s.heap[name] = h
	return h
}

// freshHeap replaces heap array `name` by an unconstrained one (havoc); stored references are below the current watermark.
func (s *State) freshHeap(prefix, name string, sort Sort) *Term {
	h := Fresh(prefix+name, sort)
	allocBoundFact(h, name, s.wm)
	s.heap[name] = h
	return h
}

func (s *State) havocHeapKey(name string) {
	if h, ok := s.heap[name]; ok {
		s.heap[name] = Fresh("H!"+name, h.sort)
	}
	// keys never touched so far are still at their symbolic initial value; havoc must give a new one
	// (caller handles keys not yet materialised through havocPrefix bookkeeping)
}

// heapNames enumerates heap array names & sorts for a location of type t with base name.
func heapKeys(base string, t types.Type, idxSorts ...Sort) []struct {
	name string
	sort Sort
	spec LeafSpec
} {
	var out []struct {
		name string
		sort Sort
		spec LeafSpec
	}
	for _, sp := range leafSpecs(t) {
		s := sp.Sort
		for i := len(idxSorts) - 1; i >= 0; i-- {
			s = ArrSort(idxSorts[i], s)
		}
		if isRefLeaf(sp) {
			refHeaps[base+sp.Suffix] = len(idxSorts)
		}
		out = append(out, struct {
			name string
			sort Sort
			spec LeafSpec
		}{base + sp.Suffix, s, sp})
	}
	return out
}

// foreignPrivate: struct types a module function can never hold a reference to (unexported types of other modules);
// their objects are not part of any caller-visible state.
var foreignPrivate = map[string]bool{}

func structFieldBase(st types.Type, i int) string {
	u := under(st).(*types.Struct)
	if n, ok := types.Unalias(st).(*types.Named); ok && n.Obj().Pkg() != nil && !n.Obj().Exported() && !isModulePkg(n.Obj().Pkg()) {
		foreignPrivate["F:"+typeName(st)+"."] = true
	}
	return "F:" + typeName(st) + "." + u.Field(i).Name()
}

// loadField loads field i (of non-struct or struct type) of the struct object at ref.
func (s *State) loadStructField(ref *Term, st types.Type, i int) *Value {
	u := under(st).(*types.Struct)
	ft := u.Field(i).Type()
	if isStruct(ft) {
		return s.loadStruct(Add(ref, Int(fieldOffset(u, i))), ft)
	}
	keys := heapKeys(structFieldBase(st, i), ft, SInt)
	v := &Value{T: ft, L: make([]*Term, len(keys))}
	for k, hk := range keys {
		v.L[k] = Select(s.heapArr(hk.name, hk.sort), ref)
		leafFacts(v.L[k], hk.spec)
	}
	valueFacts(v)
	return v
}

func (s *State) storeStructField(ref *Term, st types.Type, i int, val *Value) {
	u := under(st).(*types.Struct)
	ft := u.Field(i).Type()
	if isStruct(ft) {
		s.storeStruct(Add(ref, Int(fieldOffset(u, i))), ft, val)
		return
	}
	keys := heapKeys(structFieldBase(st, i), ft, SInt)
	for k, hk := range keys {
		s.heap[hk.name] = Store(s.heapArr(hk.name, hk.sort), ref, val.L[k])
	}
}

func (s *State) loadStruct(ref *Term, st types.Type) *Value {
	u := under(st).(*types.Struct)
	v := &Value{T: st}
	for i := 0; i < u.NumFields(); i++ {
		fv := s.loadStructField(ref, st, i)
		v.L = append(v.L, fv.L...)
	}
	return v
}

func (s *State) storeStruct(ref *Term, st types.Type, val *Value) {
	u := under(st).(*types.Struct)
	for i := 0; i < u.NumFields(); i++ {
		lo, hi := fieldRange(u, i)
		s.storeStructField(ref, st, i, val.sub(lo, hi, u.Field(i).Type()))
	}
}

// loadPtr loads a value of type t through a plain pointer term.
func (s *State) loadPtr(addr *Term, t types.Type) *Value {
	if isStruct(t) {
		return s.loadStruct(addr, t)
	}
	keys := heapKeys("P:"+typeName(t), t, SInt)
	v := &Value{T: t, L: make([]*Term, len(keys))}
	for k, hk := range keys {
		v.L[k] = Select(s.heapArr(hk.name, hk.sort), addr)
	}
	valueFacts(v)
	return v
}

func (s *State) storePtr(addr *Term, t types.Type, val *Value) {
	if isStruct(t) {
		s.storeStruct(addr, t, val)
		return
	}
	keys := heapKeys("P:"+typeName(t), t, SInt)
	for k, hk := range keys {
		s.heap[hk.name] = Store(s.heapArr(hk.name, hk.sort), addr, val.L[k])
	}
}

func elemBase(et types.Type) string { return "E:" + typeName(et) }

func (s *State) loadElem(arr, idx *Term, et types.Type) *Value {
	keys := heapKeys(elemBase(et), et, SInt, SInt)
	v := &Value{T: et, L: make([]*Term, len(keys))}
	for k, hk := range keys {
		v.L[k] = Select(Select(s.heapArr(hk.name, hk.sort), arr), idx)
	}
	valueFacts(v)
	return v
}

func (s *State) storeElem(arr, idx *Term, et types.Type, val *Value) {
	keys := heapKeys(elemBase(et), et, SInt, SInt)
	for k, hk := range keys {
		h := s.heapArr(hk.name, hk.sort)
		s.heap[hk.name] = Store(h, arr, Store(Select(h, arr), idx, val.L[k]))
	}
}

// applyPath projects a root value along a path.
func applyPath(v *Value, path []pathElem) *Value {
	for _, p := range path {
		if p.idx != nil {
			n := &Value{T: p.t, L: make([]*Term, len(v.L))}
			for i, l := range v.L {
				n.L[i] = Select(l, p.idx)
			}
			valueFacts(n)
			v = n
		} else {
			v = v.sub(p.lo, p.hi, p.t)
		}
	}
	return v
}

// updatePath returns root with the location at path replaced by nv.
func updatePath(root *Value, path []pathElem, nv *Value) *Value {
	if len(path) == 0 {
		return &Value{T: root.T, L: nv.L, LV: nv.LV, Clo: nv.Clo}
	}
	p := path[0]
	if p.idx != nil {
		cur := &Value{T: p.t, L: make([]*Term, len(root.L))}
		for i, l := range root.L {
			cur.L[i] = Select(l, p.idx)
		}
		inner := updatePath(cur, path[1:], nv)
		n := &Value{T: root.T, L: make([]*Term, len(root.L))}
		for i, l := range root.L {
			n.L[i] = Store(l, p.idx, inner.L[i])
		}
		return n
	}
	cur := root.sub(p.lo, p.hi, p.t)
	inner := updatePath(cur, path[1:], nv)
	return root.withSub(p.lo, p.hi, inner)
}

func (s *State) load(lv *LValue) *Value {
	var root *Value
	switch lv.kind {
	case lvCell:
		root = s.cells[lv.cell]
		if root == nil {
			root = freshValue("uninit!"+lv.cell.Name, lv.cell.T)
			s.cells[lv.cell] = root
		}
	case lvField:
		root = s.loadStructField(lv.obj, lv.st, lv.field)
	case lvElem:
		root = s.loadElem(lv.obj, lv.idx, lv.rootT)
	case lvPtr:
		root = s.loadPtr(lv.obj, lv.rootT)
	}
	if len(lv.path) == 0 {
		return root
	}
	v := applyPath(root, lv.path)
	return &Value{T: lv.t, L: v.L}
}

func (s *State) store(lv *LValue, val *Value) {
	if len(lv.path) == 0 {
		switch lv.kind {
		case lvCell:
			s.cells[lv.cell] = val
		case lvField:
			s.storeStructField(lv.obj, lv.st, lv.field, val)
		case lvElem:
			s.storeElem(lv.obj, lv.idx, lv.rootT, val)
		case lvPtr:
			s.storePtr(lv.obj, lv.rootT, val)
		}
		return
	}
	rootLV := *lv
	rootLV.path = nil
	rootLV.t = lv.rootT
	root := s.load(&rootLV)
	nroot := updatePath(root, lv.path, val)
	nroot.T = lv.rootT
	s.store(&rootLV, nroot)
}

// alloc returns a fresh reference above the watermark occupying size slots.
func (s *State) alloc(hint string, size int64) *Term {
	r := Fresh("ref!"+hint, SInt)
	s.assume(Gt(r, s.wm))
	nwm := Fresh("wm", SInt)
	s.assume(Eq(nwm, Add(r, Int(size))))
	s.wm = nwm
	return r
}

// bumpWM models unknown allocations by a callee.
func (s *State) bumpWM() {
	nwm := Fresh("wm", SInt)
	s.assume(Ge(nwm, s.wm))
	s.wm = nwm
}

// known-allocated: any ref-valued leaf loaded from the heap or passed in is <= wm at that time.
func (s *State) assumeAllocated(v *Value) {
	specs := leafSpecs(v.T)
	for i, l := range v.L {
		if i >= len(specs) || l.bound || l.isInt() {
			continue
		}
		sp := specs[i]
		isRef := sp.Kind == "arr" || sp.Kind == "data" || (sp.Kind == "" && sp.GoT != nil && sp.Sort == SInt && !isInteger(sp.GoT) && !isFloat(sp.GoT))
		if isRef {
			s.assume(Le(l, s.wm))
		}
		if sp.Kind == "tag" && sp.Iface != nil && nonNilIfaces[typeName(sp.Iface)] {
			s.assume(Gt(l, Int(0)))
		}
		if sp.Kind == "tag" && sp.Iface != nil && !l.isInt() {
			if it, ok := under(sp.Iface).(*types.Interface); ok && it.NumMethods() > 0 {
				// by typing: a non-nil value of static interface type T has a dynamic type implementing T
				s.assume(Or(Eq(l, Int(0)), App("implements!"+typeName(sp.Iface), SBool, l)))
			}
		}
	}
}

// nonNilIfaces: interface types declared `nonnil` in a contract file (values loaded from memory or received are assumed non-nil).
var nonNilIfaces = map[string]bool{}

var mergeHeapStrict = true

// ---- merging ----

func lvEqual(a, b *LValue) bool {
	if a == nil || b == nil {
		return a == b
	}
	return a.kind == b.kind && a.key() == b.key()
}

func cloEqual(a, b *Closure) bool {
	if a == nil || b == nil {
		return a == b
	}
	if a.Fn != b.Fn || len(a.Binds) != len(b.Binds) {
		return false
	}
	for i := range a.Binds {
		if !valueIdentical(a.Binds[i], b.Binds[i]) {
			return false
		}
	}
	return true
}

func valueIdentical(a, b *Value) bool {
	if a == b {
		return true
	}
	if a == nil || b == nil || len(a.L) != len(b.L) {
		return false
	}
	for i := range a.L {
		if a.L[i] != b.L[i] {
			return false
		}
	}
	return lvEqual(a.LV, b.LV) && cloEqual(a.Clo, b.Clo)
}

func mergeable(a, b *Value) bool {
	if a == b {
		return true
	}
	if a == nil || b == nil {
		return false
	}
	if len(a.L) != len(b.L) {
		return false
	}
	if !lvEqual(a.LV, b.LV) || !cloEqual(a.Clo, b.Clo) {
		return false
	}
	for i := range a.L {
		if (a.L[i] == nil) != (b.L[i] == nil) {
			return false
		}
		if a.L[i] != nil && a.L[i].sort != b.L[i].sort {
			return false
		}
	}
	return true
}

// tryMerge merges two states of the same frame; returns nil if not mergeable.
func tryMerge(a, b *State) *State {
	if a.frame.fn != b.frame.fn || a.frame.parent != b.frame.parent {
		return nil
	}
	if len(a.lazyHavoc) != len(b.lazyHavoc) || len(a.spawned) != len(b.spawned) {
		return nil
	}
	for i := range a.spawned {
		if a.spawned[i] != b.spawned[i] {
			return nil
		}
	}
	for i := range a.lazyHavoc {
		if a.lazyHavoc[i] != b.lazyHavoc[i] {
			return nil
		}
	}
	if len(a.held) != len(b.held) || len(a.frame.defers) != len(b.frame.defers) || a.lockSnap != b.lockSnap {
		return nil
	}
	for i := range a.held {
		if a.held[i].key != b.held[i].key || a.held[i].write != b.held[i].write {
			return nil
		}
	}
	for i := range a.frame.defers {
		da, db := a.frame.defers[i], b.frame.defers[i]
		if da.call != db.call || len(da.args) != len(db.args) {
			return nil
		}
		for k := range da.args {
			if !valueIdentical(da.args[k], db.args[k]) {
				return nil
			}
		}
		if (da.fnVal == nil) != (db.fnVal == nil) || (da.fnVal != nil && !valueIdentical(da.fnVal, db.fnVal)) {
			return nil
		}
	}
	// common pc prefix
	k := 0
	for k < len(a.pc) && k < len(b.pc) && a.pc[k] == b.pc[k] {
		k++
	}
	ca := And(a.pc[k:]...)
	cb := And(b.pc[k:]...)
	// check mergeability of cells/regs/ghost
	for c, va := range a.cells {
		if vb, ok := b.cells[c]; ok && !mergeable(va, vb) {
			return nil
		}
	}
	for r, va := range a.frame.regs {
		if vb, ok := b.frame.regs[r]; ok && !mergeable(va, vb) {
			return nil
		}
	}
	for g, va := range a.ghost {
		if vb, ok := b.ghost[g]; ok && !mergeable(va, vb) {
			return nil
		}
	}
	// Heaps that differ are not merged: ite-terms over (arrays of) arrays make the array theory reasoning of the
	// solvers explode. Such states continue as separate paths.
	// Exception: the two heaps are the same array updated at the same single location (two branches assigning one
	// field of one object) -- the merged heap is that array updated with an ite of the values.
	if mergeHeapStrict {
		// a key that one state never touched still has its initial value there
		for h, ta := range a.heap {
			tb, ok := b.heap[h]
			if !ok {
				tb = Const("H0!"+h, ta.sort)
			}
			if tb != ta {
				if _, ok := mergeHeapTerm(ca, ta, tb); !ok {
					return nil
				}
			}
		}
		for h, tb := range b.heap {
			if _, ok := a.heap[h]; !ok && tb != Const("H0!"+h, tb.sort) {
				if _, ok := mergeHeapTerm(ca, Const("H0!"+h, tb.sort), tb); !ok {
					return nil
				}
			}
		}
	}
	n := &State{}
	n.pc = append([]*Term(nil), a.pc[:k]...)
	n.pc = append(n.pc, Or(ca, cb))
	n.pc = flattenPC(n.pc)
	n.cells = map[*Cell]*Value{}
	for c, va := range a.cells {
		if vb, ok := b.cells[c]; ok {
			n.cells[c] = iteValue(ca, va, vb)
		}
	}
	n.frame = &Frame{fn: a.frame.fn, parent: a.frame.parent, depth: a.frame.depth, regs: map[ssa.Value]*Value{}, defers: a.frame.defers}
	// registers defined on one side only are kept: SSA dominance guarantees they are used only where that side was taken
	// (in particular by phi nodes, which select on the predecessor)
	for r, va := range a.frame.regs {
		if vb, ok := b.frame.regs[r]; ok {
			n.frame.regs[r] = iteValue(ca, va, vb)
		} else {
			n.frame.regs[r] = va
		}
	}
	for r, vb := range b.frame.regs {
		if _, ok := a.frame.regs[r]; !ok {
			n.frame.regs[r] = vb
		}
	}
	n.ghost = map[string]*Value{}
	for g, va := range a.ghost {
		if vb, ok := b.ghost[g]; ok {
			n.ghost[g] = iteValue(ca, va, vb)
		}
	}
	n.heap = map[string]*Term{}
	for h, ta := range a.heap {
		tb, ok := b.heap[h]
		if !ok {
			tb = Const("H0!"+h, ta.sort)
		}
		if m, ok := mergeHeapTerm(ca, ta, tb); ok {
			n.heap[h] = m
		} else {
			n.heap[h] = Ite(ca, ta, tb)
		}
	}
	for h, tb := range b.heap {
		if _, ok := a.heap[h]; !ok {
			if m, ok := mergeHeapTerm(ca, Const("H0!"+h, tb.sort), tb); ok {
				n.heap[h] = m
			} else {
				n.heap[h] = Ite(ca, Const("H0!"+h, tb.sort), tb)
			}
		}
	}
	n.wm = Ite(ca, a.wm, b.wm)
	n.held = a.held
	n.lockSnap = a.lockSnap
	n.spawned = a.spawned
	n.lazyHavoc = a.lazyHavoc
	for k, sa := range a.snaps {
		if b.snaps[k] == sa {
			if n.snaps == nil {
				n.snaps = map[string]*State{}
			}
			n.snaps[k] = sa
		}
	}
	seen := map[string]bool{}
	for _, x := range a.notes {
		if !seen[x] {
			seen[x] = true
			n.notes = append(n.notes, x)
		}
	}
	for _, x := range b.notes {
		if !seen[x] {
			seen[x] = true
			n.notes = append(n.notes, x)
		}
	}
	return n
}

// mergeHeapTerm merges two versions of one heap array without an array-sorted ite, when they are one array updated
// at one location: store(h,i,x) / store(h,i,y), store(h,i,x) / h, h / store(h,i,y). ca selects the first version.
func mergeHeapTerm(ca, ta, tb *Term) (*Term, bool) {
	if ta == tb {
		return ta, true
	}
	isStore := func(t *Term) bool { return t.op == "store" && len(t.args) == 3 }
	mergeVal := func(x, y *Term) (*Term, bool) {
		if x == y {
			return x, true
		}
		if _, _, isArr := arrayParts(x.sort); isArr {
			// nested (two-level) heaps: merge the inner arrays the same way
			return mergeHeapTerm(ca, x, y)
		}
		return Ite(ca, x, y), true
	}
	switch {
	case isStore(ta) && isStore(tb) && ta.args[0] == tb.args[0] && ta.args[1] == tb.args[1]:
		if v, ok := mergeVal(ta.args[2], tb.args[2]); ok {
			return Store(ta.args[0], ta.args[1], v), true
		}
	case isStore(ta) && ta.args[0] == tb:
		if v, ok := mergeVal(ta.args[2], Select(tb, ta.args[1])); ok {
			return Store(tb, ta.args[1], v), true
		}
	case isStore(tb) && tb.args[0] == ta:
		if v, ok := mergeVal(Select(ta, tb.args[1]), tb.args[2]); ok {
			return Store(ta, tb.args[1], v), true
		}
	}
	// two short update chains over opaque arrays (typically: two different havocs): an ite of the arrays; every read
	// from it is turned into an ite of reads by Select
	if shallowHeap(ta, 3) && shallowHeap(tb, 3) {
		return Ite(ca, ta, tb), true
	}
	return nil, false
}

func shallowHeap(t *Term, depth int) bool {
	switch {
	case t.op == "const":
		return true
	case depth == 0:
		return false
	case t.op == "store" && len(t.args) == 3:
		return shallowHeap(t.args[0], depth-1)
	case t.op == "ite" && len(t.args) == 3:
		return shallowHeap(t.args[1], depth-1) && shallowHeap(t.args[2], depth-1)
	}
	return false
}

func flattenPC(pc []*Term) []*Term {
	var out []*Term
	for _, t := range pc {
		if t.isTrue() {
			continue
		}
		if t.op == "and" {
			out = append(out, t.args...)
		} else {
			out = append(out, t)
		}
	}
	return out
}

func mergeStates(states []*State) []*State {
	if len(states) <= 1 {
		return states
	}
	out := []*State{states[0]}
	for _, s := range states[1:] {
		merged := false
		for i, o := range out {
			if m := tryMerge(o, s); m != nil {
				out[i] = m
				merged = true
				break
			}
		}
		if !merged {
			out = append(out, s)
		}
	}
	return out
}

func sortedKeys[V any](m map[string]V) []string {
	ks := make([]string, 0, len(m))
	for k := range m {
		ks = append(ks, k)
	}
	sort.Strings(ks)
	return ks
}
